#!/usr/local/bin/python3-vt
"""debug helper: run one harness config symbolically with (some) variables pinned to given values and print the first exception traceback
   tools/symrun.py <harness> '<cfg json>' '<values json (encoded as in replay files)>'"""
import sys, json, traceback
sys.path.insert(0, '/verif'); sys.dont_write_bytecode = True
from models import env
env.install_symbolic()
from engine import symx, ctx as C
import importlib, z3
h = importlib.import_module('harness.' + sys.argv[1]); cfg = json.loads(sys.argv[2]); vals = {k: C.dec(v) for k, v in json.loads(sys.argv[3]).items()}
E = symx.Explorer()
orig = (E.fresh_real, E.fresh_int, E.fresh_bool)
def pin(mk):
    def f(name, *a, **k):
        v = mk(name, *a, **k)
        if name in vals:
            E.assume(v == vals[name])
        return v
    return f
E.fresh_real, E.fresh_int, E.fresh_bool = pin(orig[0]), pin(orig[1]), pin(orig[2])
import engine.ctx
real_label = engine.ctx.exc_label
def lab(e):
    traceback.print_exception(type(e), e, e.__traceback__)
    return real_label(e)
for m in list(sys.modules.values()):
    if getattr(m, '__name__', '').startswith('harness.') and hasattr(m, 'exc_label'):
        m.exc_label = lab
def body():
    env.reset(); sc = C.SymCtx(E); h.run(sc, cfg)
E.run(body)
print('paths', E.n_paths, 'violations', [(v.label) for v in E.violations][:10])
