#!/usr/bin/env python3
"""Build-time helper: copies confirmed seeded changes (/tmp/seed_<ID>_<k>) into /verif/seeded/<ID>-<k>/ and records
what was run (from the try_seed.sh logs given on the command line) in meta.json."""
import json, os, re, shutil, sys
ROOT = os.path.dirname(os.path.dirname(os.path.abspath(__file__)))
results = {}
for log in sys.argv[1:]:
    cur = None
    for line in open(log):
        m = re.match(r'SEED (\S+) property=(\S+) demo_clean=(\d+) demo_patched=(\d+) tests: (.*)', line)
        if m:
            cur = m.group(1)
            prev = results.get(cur, {})
            results[cur] = dict(property=m.group(2), demo_clean=int(m.group(3)), demo_patched=int(m.group(4)),
                                tests=m.group(5).strip() or prev.get('tests', ''), checks={},
                                earlier=prev.get('earlier', []) + ([prev['checks']] if prev.get('checks') else []))
            continue
        m = re.match(r'\s+check (\S+) exit=(\d+)\s*(.*)', line)
        if m and cur:
            results[cur]['checks'][m.group(1)] = dict(exit=int(m.group(2)), first_labels=m.group(3).strip()[:300])
rows = []
for sd, r in sorted(results.items()):
    if not (r['demo_clean'] == 0 and r['demo_patched'] != 0):
        print('NOT CONFIRMED', sd, r)
        continue
    base = os.path.basename(sd)
    if base.startswith(('seed3_', 'seed4_', 'seed5_', 'seed6_', 'seed7_', 'seed8_')):
        name = '%s-r%s-%s' % (r['property'], base[4], base[len('seed3_'):])
    elif base.startswith('seed2_'):
        pid_, k_ = base[len('seed2_'):].split('_')
        name = '%s-r2-%s' % (pid_, k_)
    else:
        name = base.replace('seed_', '').replace('_', '-')
    dst = os.path.join(ROOT, 'seeded', name)
    os.makedirs(dst, exist_ok=True)
    for f in ('patch.diff', 'demo.py'):
        shutil.copy(os.path.join(sd, f), os.path.join(dst, f))
    meta = json.load(open(os.path.join(sd, 'meta.json')))
    meta['confirmed_by_me'] = dict(
        how="tools/try_seed.sh in the scratch worktree /tmp/wt_%s (synced to /repo HEAD): demo.py on the clean tree, "
            "git apply patch.diff, demo.py again, full pytest run, then the checks with VCHECK_REPO pointing at the worktree; "
            "worktree restored afterwards" % r['property'],
        demo_exit_clean_tree=r['demo_clean'], demo_exit_with_change=r['demo_patched'], test_suite_with_change=r['tests'],
        checks={c: v for c, v in r['checks'].items()})
    if r.get('earlier'):
        meta['confirmed_by_me']['earlier_runs_before_strengthening'] = r['earlier']
    json.dump(meta, open(os.path.join(dst, 'meta.json'), 'w'), indent=1)
    det = ', '.join('%s: %s' % (c, {0: 'missed', 1: 'VIOLATION', 2: 'inconclusive', 3: 'harness error'}.get(v['exit'], v['exit']))
                    for c, v in r['checks'].items())
    if any(v['exit'] != 1 for e in r.get('earlier', []) for v in e.values()):
        det += ' (missed by the check as it stood when the change arrived)'
    rows.append('| %s | %s | %s | %s |' % (name, meta.get('summary', '')[:160].replace('|', '/').replace('\n', ' '),
                                          meta.get('needs', '')[:140].replace('|', '/').replace('\n', ' '), det))
print('| seed | change | needs | result of the quick check(s) |\n|---|---|---|---|')
print('\n'.join(rows))
