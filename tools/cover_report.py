import json,glob,os,ast,sys
seen=set()
for f in glob.glob("%s/cov_*.json" % (sys.argv[1] if len(sys.argv) > 1 else "/tmp/cover")):
    for fn,ln in json.load(open(f)): seen.add((fn,ln))
repo='/repo/bycycle'
tot=0;hit=0
for root,_,files in os.walk(repo):
    if 'tests' in root: continue
    for f in files:
        if not f.endswith('.py'): continue
        p=os.path.join(root,f)
        src=open(p).read()
        tree=ast.parse(src)
        # executable statement lines inside functions, excluding docstrings
        lines={}
        for fn in ast.walk(tree):
            if isinstance(fn,(ast.FunctionDef,)):
                for node in ast.walk(fn):
                    if isinstance(node,ast.stmt) and node is not fn:
                        if isinstance(node,ast.Expr) and isinstance(node.value,ast.Constant) and isinstance(node.value.value,str): continue
                        lines.setdefault(node.lineno,fn.name)
        miss=[l for l in sorted(lines) if (p,l) not in seen]
        tot+=len(lines);hit+=len(lines)-len(miss)
        if miss:
            print('%s: %d/%d missed'%(p[len('/repo/'):],len(miss),len(lines)))
            srcl=src.split('\n')
            for l in miss: print('   %4d [%s] %s'%(l,lines[l],srcl[l-1].strip()[:100]))
print('TOTAL statements in functions: %d, executed by the quick tier: %d (%.1f%%)'%(tot,hit,100.0*hit/max(tot,1)))
