#!/usr/local/bin/python3-vt
"""Build-time sensitivity helper (not a registered command):
   tools/mut.py <ID> <tier> <relative file> <old text> <new text>
copies /repo/bycycle to a mkdtemp() dir, applies the textual mutation, runs the check against the
copy (VCHECK_REPO) and removes the copy."""
import sys, os, shutil, subprocess, tempfile
pid, tier, rel, old, new = sys.argv[1:6]
d = tempfile.mkdtemp(prefix='vmut_')
try:
    shutil.copytree('/repo/bycycle', os.path.join(d, 'bycycle'), ignore=shutil.ignore_patterns('__pycache__', 'tests'))
    p = os.path.join(d, rel)
    s = open(p).read()
    assert s.count(old) >= 1, "pattern not found"
    open(p, 'w').write(s.replace(old, new, 1))
    env = dict(os.environ, VCHECK_REPO=d)
    r = subprocess.run([os.path.join(os.path.dirname(os.path.dirname(os.path.abspath(__file__))), 'vcheck'), 'run', pid, '--tier', tier], env=env)
    print('exit', r.returncode)
finally:
    shutil.rmtree(d, ignore_errors=True)
