#!/usr/local/bin/python3-vt
import sys, os, json, cProfile, pstats, time
sys.path.insert(0, '/verif'); sys.dont_write_bytecode=True
from engine import driver
hname=sys.argv[1]; cfg=json.loads(sys.argv[2])
task=(hname,cfg,'quick',0,dict(driver.TIER_LIMITS['quick']),None,None)
pr=cProfile.Profile(); pr.enable(); t=time.time()
r=driver._explore(task)
pr.disable()
print({k:r[k] for k in ('paths','decisions','queries','obligations','solver_time','wall','error','inconclusive')}, len(r['violations']))
pstats.Stats(pr).sort_stats("tottime").print_stats(25)
