#!/usr/bin/env python3
"""Regenerates /verif/MANIFEST.json from the table below (build-time helper)."""
import json, os
ROOT = os.path.dirname(os.path.dirname(os.path.abspath(__file__)))
props = [json.loads(l) for l in open(os.path.join(ROOT, 'properties.jsonl'))]

TECH = "bounded symbolic execution of the unmodified bycycle source over a numpy/pandas model; z3 decides every path and obligation; counterexamples replayed on the real libraries"

CHECKS = {
 'C01': dict(
   text="Raw samples, the band-passed samples (arbitrary filter output), the amplitude envelope, the dual-threshold mask and the boundary are z3 variables; the real compute_shape_features / compute_features / Bycycle.fit run over the models on every feasible path and every returned table is proved to satisfy the ordering / tiling / boundary structure; a table with >= 1 row is required whenever >= 3 closed half-waves of each kind lie inside the boundary. Multi-row assembly is covered with find_extrema / find_zerox cut to arbitrary outputs obeying their C02 / C03 contracts (positions fully symbolic).",
   note="Trusted: numpy/pandas models (witness-validated), stub contracts at the neurodsp boundary (arbitrary outputs of the right length), C02/C03 for the assembly configurations. Bound: padded length <= 8 (quick) / 10 (thorough) for the uncut layers; 2..6 (quick) / 2..9 (thorough) extrema pairs for the assembly.",
   ref="4 C01"),
 'C04': dict(
   text="Raw samples, amplitude envelope and (in cut mode) the cyclepoint positions are z3 variables; the real compute_shape_features and helpers run on every feasible path and each shape column is proved equal to its documented formula read on the original signal, for both centrings, incl. the (0,1) / [0,1] ranges and the arguments of the amplitude call.",
   note="Trusted: numpy/pandas models (witness-validated); cut mode assumes the C01 postcondition for compute_cyclepoints. Bounds: e2e padded length 8 (quick) / 9; cut N <= 9 with 1..3 cycles (quick) / N <= 10; int16 / uint8 / int64 signals over the whole type range with wrap-around modelled (N = 4 / 6); durations, extremum voltages and symmetry also with UNBOUNDED sample positions (1..2 / 1..3 cycles, signal known only at the extrema); 64-bit integers are treated as unbounded.",
   ref="4 C04"),
 'C02': dict(
   text="Raw samples, the band-passed samples (arbitrary filter output) and the boundary are z3 variables; all feasible paths of the real find_extrema are executed for every padded length up to the bound and every reported extremum is proved to be the first raw-signal extreme of its closed half-wave window, nothing else being reported; boundary and first_extrema rules included.",
   note="Trusted: numpy model (witness-validated on real numpy each run), stub contracts for filter_signal / compute_filter_length (arbitrary output of len(sig); ValueError when both or neither of n_cycles/n_seconds). Bound: padded length <= 8 (quick) / 10 (thorough); int16 / uint8 signals (every value of the type, wrap-around modelled) N <= 5 / 6. Real FIR numerics are not encoded.",
   ref="4 C02"),
 'C03': dict(
   text="Samples are unbounded z3 reals and the alternating extrema positions z3 integers; all feasible paths of the real find_zerox are executed and every midpoint is proved equal to the floor-median of the half-height crossings (centre for inverted / all-zero flanks), with count and temporal pairing.",
   note="Trusted: numpy model (witness-validated), real arithmetic for (a+b)/2. Bound: N <= 7 (quick) / 9 (thorough); int16 / uint8 signals (every value of the type, wrap-around modelled) N <= 5 / 6.",
   ref="4 C03"),
 'C05': dict(
   text="Flank voltages of any sign (zero allowed), positive integer periods, raw samples and cyclepoint positions are z3 variables; the four real burst-feature functions run over the pandas/numpy models on every feasible path (including the 0/0 -> NaN and x/0 -> -inf branches) and each output cell is proved equal to the reference definition and inside [0,1] for positive flank voltages.",
   note="Trusted: pandas/numpy models incl. rank(method=average) (witness-validated on the real libraries), real arithmetic for ratios/means. Bounds: see evidence.bounds (rows <= 5/6, N <= 7/9; monotonicity also on int16 / uint8 signals with wrap-around modelled).",
   ref="4 C05"),
 'C09': dict(
   text="compute_features(x,'trough') and compute_features(-x,'peak') run for real on one path (both burst methods) with raw samples and cyclepoint positions as z3 variables; the cyclepoint search is cut to a recorder that proves both analyses hand it the same signal and returns one arbitrary C01-conforming table; every column of the two tables is proved equal under the documented renaming / negation / one-minus map, labels included.",
   note="Trusted: numpy/pandas models (witness-validated); relational stub contracts (same input -> same output, detector even). Bounds: 1..3 cycles on N <= 8 (quick) / 9 (thorough). Thresholds fixed at representative values (the rule for all thresholds is C06/C07).",
   ref="4 C09"),
 'C10': dict(
   text="Two analyses per path. Amplitude: the real cyclepoint search on x and a*x with a symbolic a > 0 (tables proved identical), and the full table on x and a*x for a in {2^-20, 1/2, 2, 2^20} with the cyclepoint search cut (voltage features and band_amp proved multiplied by a, everything else and the labels identical; scale factors are pulled out of the z3 terms so ratios cancel exactly). Units: the whole pipeline on (x, fs, f_range) and (x, c*fs, c*f_range) with symbolic c > 0 and ratio-keyed neurodsp stubs (tables proved identical).",
   note="Trusted: models (witness-validated); relational stub contracts (filter/amplitude positively homogeneous, detector scale-free, all depend on f/fs only). Bounds in evidence.bounds. IEEE rounding is outside (the statement itself restricts to powers of two).",
   ref="4 C10"),
 'C11': dict(
   text="compute_features is cut to a recorder whose token carries its arguments; multiprocessing.Pool is a model whose completion order is a solver-chosen permutation (imap yields in submission order, imap_unordered in completion order); all samples, n_jobs (>= 1 or -1), cpu_count, the permutation, return_samples and option values are z3 variables. On every feasible path result[i] is proved to be the analysis of row i with the options of row i (return_samples overridden), for compute_features_2d(axis=0) and BycycleGroup.fit; independence of n_jobs / completion order / progress follows.",
   note="Trusted: the stdlib Pool ordering contract (modelled, real OS scheduling not explored); equal arguments => equal analysis (C15). Bound: 1..3 rows (quick) / 1..4 (thorough).",
   ref="4 C11"),
 'C12': dict(
   text="Same machinery as C11 for 3-D arrays: extents (n0, n1) enumerated over {1,2,3}^2 incl. n0 != n1, axis in {0, 1, (0,1)}, shared / 1-D / 2-D option lists; axis=(0,1) runs the real inner compute_features_2d with compute_features cut, axis 0/1 cut compute_features_2d to a per-epoch token recorder; every entry [i][j] is proved to sit at the position of its signal / slice with the options of that position; BycycleGroup models mirror it.",
   note="As C11. Bound: n0*n1 <= 6 with 2 samples (quick); all nine extents with 3 samples (thorough).",
   ref="4 C12"),
 'C13': dict(
   text="epoch_df and compute_features_2d(axis=None) run for real on an arbitrary C01-conforming flattened table (sample columns z3 integers, feature cells z3 reals/NaN, epoch_len an unbounded z3 integer); every cycle is proved to land in exactly one epoch (the one containing its closing extremum), in order, with unchanged features and shifted samples; labels equal the flattened labels for a single option set and the per-epoch rule for a list (real detect_bursts_* run).",
   note="Trusted: models (witness-validated); compute_features cut to a recorder whose labels follow the rule for the first option set; boundary coincidences accepted on either half-open convention. Bound: 1..3 epochs, 0..3 cycles (quick) / 0..5 (thorough).",
   ref="4 C13"),
 'C19': dict(
   text="(A) check_kwargs_shape runs on array stand-ins whose extents are unbounded z3 integers: ValueError <=> undocumented (ndim, axis, option-shape) combination, for all extents at once; (B) the group entry points on small arrays with compute_features cut: invalid combinations raise ValueError before any signal is analysed, valid ones are accepted; (C) each documented range parameter is one z3 real/integer at each public entry point: outside its range => ValueError and no table, inside => accepted; (D) enumerated options incl. unknown string / None / int, dimensionality guards, plot-before-fit.",
   note="Trusted: models (witness-validated); neurodsp stubs reject fs <= 0 like the real library; cut of the cyclepoint search where only the exception behaviour matters. The decision table of documented option-list shapes is written out in evidence.assumptions.",
   ref="4 C19"),
 'C20': dict(
   text="Part 1: raw / z-scored samples, feature cells, labels and thresholds are z3 variables, cyclepoint positions and x-limits on the sample grid z3 integers; the real plot functions run with recording stubs and every marker, the highlight mask, every parameter panel and the threshold line handed to neurodsp / matplotlib are proved against the table (genuine cyclepoint of its kind, completeness for the cyclepoint plots, burst samples only / all samples of bursting cycles inside the view, values at cycle centres). Part 2: the seconds<->samples conversions of the plot code, limit_df and limit_signal are translated from the current source AST into QF_FP and z3 proves, per sampling rate and per binade of sample indices, that they pick the same sample as exact arithmetic.",
   note="Trusted: models (witness-validated); that neurodsp / matplotlib draw what they are given. Part 1 uses power-of-two fs (exact time axis); Part 2 covers fs in {1000, 250, 512} and indices < 2^14 (quick) / seven rates and < 2^20 (thorough); an expression shape the translator does not understand is reported inconclusive.",
   ref="4 C20", tech="bounded symbolic execution of the unmodified plot code over numpy/pandas models (z3 decides every path/obligation) + AST-to-QF_FP translation of the seconds<->samples expressions decided by z3's bit-blasting FP solver; counterexamples replayed on real numpy"),
 'C14': dict(
   text="One inductive step instead of history enumeration: from symbolic settings (threshold values, min_n_cycles, reductions as z3 variables) the constructor is proved to store exactly its arguments with shorthand names expanded; fit is proved to call compute_features with exactly the stored settings, to store its result and to leave the option dictionaries value-equal; recompute_edges(r) is proved to hand over every *_threshold lowered by r without touching the stored thresholds; group models are proved to mirror df_features / sigs by position. Real-pipeline runs compare Bycycle.fit with compute_features and four explicit histories (fit/edit/refit, fit/recompute/refit, load/fit, fit A/fit B) with a fresh object on the same path.",
   note="Trusted: models (witness-validated); stubs (same input -> same output); cyclepoint search cut to an arbitrary C01-conforming table in the real-pipeline steps. Histories longer than 3 steps are covered only through the invariant argument. Bounds in evidence.bounds.",
   ref="4 C14"),
 'C15': dict(
   text="Each listed function is called for real on tracked argument objects with symbolic contents; a deep structural snapshot of every argument (arrays, nested option dicts, tables) is proved value-equal after the call (frame condition) and a second call on the very same objects is proved to return an equal result (repeatability) - one inductive step covering arbitrary call sequences that share argument objects.",
   note="Trusted: models' view/copy and pandas copy-on-write semantics (conformance + witness replay); stubs as in C01 (same input -> same output). Plot functions' frame conditions live in the C20 harness; detect_bursts_* are outside the statement's list. Bounds in evidence.bounds.",
   ref="4 C15"),
 'C16': dict(
   text="Table cells, two threshold vectors and two min_n_cycles are z3 variables; input labels are produced by the real detect_bursts_cycles on the same path, then the real recompute_edges/recompute_edge run; frame (input untouched, only edge consistency cells change), value (one-sided ratio) and label (rule on the edited table; bursts only grow for unchanged thresholds) obligations are proved. Larger tables use a cut of compute_*_consistency (proved by C05) to keep the arithmetic linear.",
   note="Trusted: pandas/numpy models (witness-validated), C05 for the cut configurations. Bounds: uncut rows 3..4 (quick) / 3..5 (thorough); cut rows 3..6 / 3..8.",
   ref="4 C16"),
 'C18': dict(
   text="Sample columns are z3 integers under the C01 ordering invariant, feature cells / time stamps / start / stop z3 reals (or None); the real limit_df, limit_signal, split_samples_df, drop_samples_df and flatten_dfs run over the pandas/numpy models on every feasible path and selection, order, value-preservation and common-offset obligations are proved.",
   note="Trusted: pandas/numpy models (witness-validated). fs enumerated in {1,2,0.5(,4)} so start*fs is linear; IEEE rounding of fs*start is outside this check (covered by the C20 floating-point kernels). Bounds in evidence.bounds.",
   ref="4 C18"),
 'C06': dict(
   text="All four feature columns (reals with a symbolic NaN flag per cell), the four thresholds and min_n_cycles are z3 variables; every feasible path of the real detect_bursts_cycles + check_min_burst_cycles is executed over the pandas/numpy models and the label rule and the threshold-monotonicity implication (second run on the same path) are proved.",
   note="Trusted: pandas/numpy models (witness-validated on real pandas 3 every run). Bound: 1..7 rows (quick) / 1..10 (thorough). +-inf cells not explored.",
   ref="4 C06"),
 'C17': dict(
   text="Cyclepoint positions are z3 integers (every alternating placement with extrema >= 2 apart, midpoints anywhere in their flank), numpy.pi a z3 real within 1e-13 of pi; all paths of the real extrema_interpolated_phase/_merge_phases are executed and anchors, range, monotonicity and the finite/NaN span are proved as linear-arithmetic obligations.",
   note="Trusted: numpy model incl. interp (witness-validated). Bound: N <= 9, <= 4 extrema (quick) / N <= 12, <= 5 extrema (thorough). Float rounding inside interp not modelled.",
   ref="4 C17"),
 'C07': dict(
   text="Side-extrema positions, the sample-wise detector's mask, burst_fraction_threshold and both min_n_cycles values are z3 variables; the real compute_features(amp) -> compute_burst_features -> compute_burst_fraction -> detect_bursts_amp -> check_min_burst_cycles chain runs on every feasible path (compute_shape_features cut to an arbitrary C01-conforming table) and burst_fraction, the label rule, the single effective min_n_cycles (detector argument == run filter) and threshold monotonicity are proved.",
   note="Trusted: numpy/pandas models (witness-validated); stub for the dual-threshold detector (arbitrary mask, arguments recorded); C01 postcondition for the cut table. Bounds: 1..3 cycles on N <= 9 (quick) / 1..4 on N <= 12 (thorough). min_burst_duration not explored.",
   ref="4 C07"),
 'C08': dict(
   text="Every boolean array up to the stated length and every integer min_n_cycles >= 0 are z3 variables; all feasible paths of the real check_min_burst_cycles are executed and the run-length formula, no-False-to-True and idempotence are proved (unsat) on each.",
   note="Trusted: the list-backed numpy model (validated per run by replaying path witnesses on real numpy); z3. Bound: length <= 10 (quick) / 13 (thorough).",
   ref="4 C08"),
}
NA_REASON = "check not built yet (build in progress; see DESIGN.md section 9)"

checks = []
for p in props:
    pid = p['id']
    if pid in CHECKS:
        c = CHECKS[pid]
        checks.append(dict(
            property_id=pid,
            quick_cmd="./vcheck run %s --tier quick" % pid,
            thorough_cmd="./vcheck run %s --tier thorough" % pid,
            evidence_file="/verif/evidence/%s.json" % pid,
            replay_cmd_template="./vcheck replay {path}",
            engine="symx",
            level_claimed=dict(category="model_checking", text=c['text'], design_ref=c['ref']),
            level_note=c['note'],
            technique=c.get('tech', TECH)))
m = dict(
    version=1,
    setup_cmd="./vcheck selftest --fast",
    hooks=dict(guard="BYCYCLE_VERIF",
               enable="no source hooks: the checks import /repo/bycycle/**/*.py unchanged with model/stub modules bound in sys.modules",
               baseline_off_cmd="cd /repo && /venv/bin/python -m pytest -q -p no:cacheprovider --timeout=900 --continue-on-collection-errors",
               source_commits=[], add_only=True),
    engines=[dict(name="symx", path="/verif/engine/symx.py", serves_properties=sorted(CHECKS),
                  kind_free_text="operator-overloading symbolic executor with decision replay on z3 5.1 (python3-vt); numpy/pandas semantic models; real-side replay under /venv/bin/python")],
    checks=checks,
    not_applicable=[dict(property_id=p['id'], reason=NA_REASON) for p in props if p['id'] not in CHECKS],
    notes="Exit codes: 0 held / 1 violation (VIOLATION line) / 2 inconclusive / 3 harness error. See DESIGN.md.")
json.dump(m, open(os.path.join(ROOT, 'MANIFEST.json'), 'w'), indent=1)
print("checks:", [c['property_id'] for c in checks])
