#!/usr/bin/env python3
"""Regenerates /verif/MANIFEST.json from the table below (build-time helper)."""
import json, os
ROOT = os.path.dirname(os.path.dirname(os.path.abspath(__file__)))
props = [json.loads(l) for l in open(os.path.join(ROOT, 'properties.jsonl'))]

TECH = "bounded symbolic execution of the unmodified bycycle source over a numpy/pandas model; z3 decides every path and obligation; counterexamples replayed on the real libraries"

CHECKS = {
 'C08': dict(
   text="Every boolean array up to the stated length and every integer min_n_cycles >= 0 are z3 variables; all feasible paths of the real check_min_burst_cycles are executed and the run-length formula, no-False-to-True and idempotence are proved (unsat) on each.",
   note="Trusted: the list-backed numpy model (validated per run by replaying path witnesses on real numpy); z3. Bound: length <= 10 (quick) / 13 (thorough).",
   ref="4 C08"),
}
NA_REASON = "check not built yet (build in progress; see DESIGN.md section 9)"

checks = []
for p in props:
    pid = p['id']
    if pid in CHECKS:
        c = CHECKS[pid]
        checks.append(dict(
            property_id=pid,
            quick_cmd="./vcheck run %s --tier quick" % pid,
            thorough_cmd="./vcheck run %s --tier thorough" % pid,
            evidence_file="/verif/evidence/%s.json" % pid,
            replay_cmd_template="./vcheck replay {path}",
            engine="symx",
            level_claimed=dict(category="model_checking", text=c['text'], design_ref=c['ref']),
            level_note=c['note'],
            technique=c.get('tech', TECH)))
m = dict(
    version=1,
    setup_cmd="./vcheck selftest --fast",
    hooks=dict(guard="BYCYCLE_VERIF",
               enable="no source hooks: the checks import /repo/bycycle/**/*.py unchanged with model/stub modules bound in sys.modules",
               baseline_off_cmd="cd /repo && /venv/bin/python -m pytest -q -p no:cacheprovider --timeout=900 --continue-on-collection-errors",
               source_commits=[], add_only=True),
    engines=[dict(name="symx", path="/verif/engine/symx.py", serves_properties=sorted(CHECKS),
                  kind_free_text="operator-overloading symbolic executor with decision replay on z3 5.1 (python3-vt); numpy/pandas semantic models; real-side replay under /venv/bin/python")],
    checks=checks,
    not_applicable=[dict(property_id=p['id'], reason=NA_REASON) for p in props if p['id'] not in CHECKS],
    notes="Exit codes: 0 held / 1 violation (VIOLATION line) / 2 inconclusive / 3 harness error. See DESIGN.md.")
json.dump(m, open(os.path.join(ROOT, 'MANIFEST.json'), 'w'), indent=1)
print("checks:", [c['property_id'] for c in checks])
