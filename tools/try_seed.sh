#!/bin/bash
# tools/try_seed.sh <seed dir> [check ids...]   -- build-time helper
# Confirms a seeded change in its scratch worktree /tmp/wt_<property> (demo passes on the clean tree, fails with
# the change, test suite unchanged), then runs the given checks (default: the seed's own property) against it.
sd=$1; shift
pid=$(python3 -c "import json,sys;print(json.load(open('$sd/meta.json'))['property'])")
checks=${@:-$pid}
wt=${WT:-/tmp/wt_$pid}
git -C $wt checkout -q -- . ; git -C $wt checkout -q --detach $(git -C /repo rev-parse HEAD); git -C $wt status --short | grep -v '^??' | head -2
(cd $wt && PYTHONPATH=$wt timeout 600 /venv/bin/python $sd/demo.py >/dev/null 2>&1); c0=$?
git -C $wt apply $sd/patch.diff || { echo "PATCH-FAILED $sd"; exit 9; }
(cd $wt && PYTHONPATH=$wt timeout 600 /venv/bin/python $sd/demo.py >/dev/null 2>&1); c1=$?
if [ -z "$SKIPTESTS" ]; then tests=$(cd $wt && timeout 900 /venv/bin/python -m pytest -q -p no:cacheprovider --timeout=900 --continue-on-collection-errors 2>&1 | tail -1); fi
echo "SEED $sd property=$pid demo_clean=$c0 demo_patched=$c1 tests: $tests"
for c in $checks; do
  out=$(VCHECK_REPO=$wt timeout 2400 /verif/vcheck run $c --tier ${TIER:-quick} 2>&1); rc=$?
  echo "   check $c exit=$rc  $(echo "$out" | grep -E '^  # ' | head -2 | tr '\n' ' ' | cut -c1-300)"
done
git -C $wt checkout -q -- .
