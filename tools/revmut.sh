#!/bin/bash
# usage: revmut.sh <ID> <commit>  -- run check against a copy of /repo with <commit> reverted
set -e
d=$(mktemp -d /tmp/vrev_XXXX)
cp -r /repo/bycycle $d/bycycle
(cd /repo && git diff $2~1 $2 -- bycycle) | (cd $d && patch -R -p1 -s)
VCHECK_REPO=$d /verif/vcheck run $1 --tier quick 2>&1 | grep -v "^   " | tail -4 | cut -c1-300
rm -rf $d
