"""symx -- symbolic execution of ordinary Python code by operator overloading and
decision replay on z3 (see DESIGN.md section 2.1).

* SymBool / SymInt / SymFloat wrap z3 terms.  ``bool(SymBool)`` is a *decision*:
  the explorer asks z3 whether both directions are feasible under the current path
  condition, follows one and schedules the other.  Paths are explored depth first by
  re-running the harness with a recorded decision prefix.
* ``int(SymInt)`` concretises by forking over the feasible values.
* ``assume`` adds a precondition, ``prove`` checks ``path /\\ not(phi)``.

The module has no dependency except z3 and is only ever imported by the symbolic
side (python3-vt).
"""
import time
import fractions
import z3

# --------------------------------------------------------------------------- control flow


class PathAbort(BaseException):
    """The current path is infeasible (assume failed) or was cut on purpose."""


class Inconclusive(BaseException):
    """Solver said unknown / a cap was hit: the whole run is inconclusive."""


class ModelGap(BaseException):
    """The numpy/pandas model does not cover what the code under test just did."""


_EXPLORER = None  # the active explorer (one per process)


def cur():
    if _EXPLORER is None:
        raise RuntimeError("no active symx explorer")
    return _EXPLORER


def active():
    return _EXPLORER is not None


# --------------------------------------------------------------------------- symbolic values


def _is_sym(x):
    return isinstance(x, (SymBool, SymInt, SymFloat))


class f64(float):
    """Concrete float with numpy scalar semantics (x/0 -> inf/nan, never raises)."""
    __slots__ = ()

    def _w(r):  # noqa
        return r

    def __add__(self, o):
        if isinstance(o, (int, float)):
            return f64(float.__add__(self, o))
        return NotImplemented

    __radd__ = __add__

    def __sub__(self, o):
        if isinstance(o, (int, float)):
            return f64(float.__sub__(self, o))
        return NotImplemented

    def __rsub__(self, o):
        if isinstance(o, (int, float)):
            return f64(float(o) - float(self))
        return NotImplemented

    def __mul__(self, o):
        if isinstance(o, (int, float)):
            return f64(float.__mul__(self, o))
        return NotImplemented

    __rmul__ = __mul__

    def __truediv__(self, o):
        if isinstance(o, (int, float)):
            return f64(conc_div(float(self), float(o)))
        return NotImplemented

    def __rtruediv__(self, o):
        if isinstance(o, (int, float)):
            return f64(conc_div(float(o), float(self)))
        return NotImplemented

    def __neg__(self):
        return f64(-float(self))

    def __abs__(self):
        return f64(abs(float(self)))

    def __repr__(self):
        return float.__repr__(self)


class i64(int):
    """Concrete int with numpy scalar division semantics."""
    __slots__ = ()

    def __add__(self, o):
        if isinstance(o, bool) or type(o) in (int, i64):
            return i64(int(self) + int(o))
        return NotImplemented

    __radd__ = __add__

    def __sub__(self, o):
        if isinstance(o, bool) or type(o) in (int, i64):
            return i64(int(self) - int(o))
        return NotImplemented

    def __rsub__(self, o):
        if isinstance(o, bool) or type(o) in (int, i64):
            return i64(int(o) - int(self))
        return NotImplemented

    def __mul__(self, o):
        if isinstance(o, bool) or type(o) in (int, i64):
            return i64(int(self) * int(o))
        return NotImplemented

    __rmul__ = __mul__

    def __neg__(self):
        return i64(-int(self))

    def __truediv__(self, o):
        if isinstance(o, (int, float)):
            return f64(conc_div(float(self), float(o)))
        return NotImplemented

    def __rtruediv__(self, o):
        if isinstance(o, (int, float)):
            return f64(conc_div(float(o), float(self)))
        return NotImplemented

    def __repr__(self):
        return int.__repr__(self)


def conc_div(a, b):
    """IEEE division of two concrete floats (numpy semantics)."""
    if b == 0:
        if a != a or a == 0:
            return float('nan')
        neg = (a < 0) != (str(b)[0] == '-')
        return float('-inf') if neg else float('inf')
    try:
        return a / b
    except OverflowError:
        return float('inf') if (a > 0) == (b > 0) else float('-inf')


_RV, _IV = {}, {}
_TRUE, _FALSE = z3.BoolVal(True), z3.BoolVal(False)


def _realval(x):
    r = _RV.get(x)
    if r is None:
        r = z3.RealVal(x) if isinstance(x, int) else z3.RealVal(str(_frac(x)))
        if len(_RV) < 4096:
            _RV[x] = r
    return r


def _intval(x):
    r = _IV.get(x)
    if r is None:
        r = z3.IntVal(x)
        if len(_IV) < 4096:
            _IV[x] = r
    return r


def _zb(x):
    """-> z3 Bool term."""
    if isinstance(x, SymBool):
        return x.t
    if isinstance(x, bool):
        return _TRUE if x else _FALSE
    if isinstance(x, SymInt):
        return x.t != 0
    if isinstance(x, int):
        return z3.BoolVal(x != 0)
    raise ModelGap("cannot use %r as a boolean term" % (type(x),))


def _frac(x):
    return fractions.Fraction(x)


def _zr(x):
    """-> z3 Real term (finite concrete or symbolic)."""
    if isinstance(x, SymFloat):
        return x.t
    if isinstance(x, SymInt):
        return z3.ToReal(x.t)
    if isinstance(x, SymBool):
        return z3.If(x.t, z3.RealVal(1), z3.RealVal(0))
    if isinstance(x, bool):
        return _realval(int(x))
    if isinstance(x, int):
        return _realval(int(x))
    if isinstance(x, float):
        if x != x or x in (float('inf'), float('-inf')):
            raise ModelGap("non-finite concrete float in a real term")
        return _realval(float(x))
    if isinstance(x, fractions.Fraction):
        return z3.RealVal(str(x))
    raise ModelGap("cannot use %r as a real term" % (type(x),))


def _zi(x):
    """-> z3 Int term."""
    if isinstance(x, SymInt):
        return x.t
    if isinstance(x, SymBool):
        return z3.If(x.t, z3.IntVal(1), z3.IntVal(0))
    if isinstance(x, bool):
        return _intval(int(x))
    if isinstance(x, int):
        return _intval(int(x))
    raise ModelGap("cannot use %r as an int term" % (type(x),))


def _nonfinite(x):
    return isinstance(x, float) and (x != x or x in (float('inf'), float('-inf')))


class SymBool:
    __slots__ = ('t',)

    def __init__(self, t):
        self.t = t

    def __bool__(self):
        return cur().decide(self.t)

    # logical
    def __and__(self, o):
        if isinstance(o, (SymBool, bool)):
            return mk_bool(z3.And(self.t, _zb(o)))
        return NotImplemented

    __rand__ = __and__

    def __or__(self, o):
        if isinstance(o, (SymBool, bool)):
            return mk_bool(z3.Or(self.t, _zb(o)))
        return NotImplemented

    __ror__ = __or__

    def __xor__(self, o):
        if isinstance(o, (SymBool, bool)):
            return mk_bool(z3.Xor(self.t, _zb(o)))
        return NotImplemented

    __rxor__ = __xor__

    def __invert__(self):
        return mk_bool(z3.Not(self.t))

    def __eq__(self, o):
        if isinstance(o, (SymBool, bool)):
            return mk_bool(self.t == _zb(o))
        if isinstance(o, (int, SymInt)):
            return self._int() == o
        if isinstance(o, (float, SymFloat)):
            return SymFloat(_zr(self)) == o
        return NotImplemented

    def __ne__(self, o):
        r = self.__eq__(o)
        if r is NotImplemented:
            return r
        return ~r if isinstance(r, SymBool) else (not r)

    __hash__ = None

    # arithmetic promotes to int
    def _int(self):
        return SymInt(_zi(self))

    def __add__(self, o):
        return self._int() + o

    def __radd__(self, o):
        return o + self._int()

    def __sub__(self, o):
        return self._int() - o

    def __rsub__(self, o):
        return o - self._int()

    def __mul__(self, o):
        return self._int() * o

    def __rmul__(self, o):
        return o * self._int()

    def __truediv__(self, o):
        return self._int() / o

    def __rtruediv__(self, o):
        return o / self._int()

    def __neg__(self):
        return -self._int()

    def __lt__(self, o):
        return self._int() < o

    def __le__(self, o):
        return self._int() <= o

    def __gt__(self, o):
        return self._int() > o

    def __ge__(self, o):
        return self._int() >= o

    def __int__(self):
        return int(bool(self))

    def __index__(self):
        return int(bool(self))

    def __repr__(self):
        return "SymBool(%s)" % (self.t,)


def mk_bool(t):
    return SymBool(t)


def mk_int(t):
    if z3.is_int_value(t):
        return i64(t.as_long())
    return SymInt(t)


class SymInt:
    __slots__ = ('t',)

    def __init__(self, t):
        self.t = t

    def _bin(self, o, f, rev=False):
        if isinstance(o, (SymFloat, float)) and not isinstance(o, bool):
            a = SymFloat(_zr(self))
            return f(o, a) if rev else f(a, o)
        if isinstance(o, (SymInt, SymBool, int)):
            a, b = self.t, _zi(o)
            return mk_int(f(b, a) if rev else f(a, b))
        return NotImplemented

    def __add__(self, o):
        return self._bin(o, lambda a, b: a + b)

    def __radd__(self, o):
        return self._bin(o, lambda a, b: a + b, True)

    def __sub__(self, o):
        return self._bin(o, lambda a, b: a - b)

    def __rsub__(self, o):
        return self._bin(o, lambda a, b: a - b, True)

    def __mul__(self, o):
        return self._bin(o, lambda a, b: a * b)

    def __rmul__(self, o):
        return self._bin(o, lambda a, b: a * b, True)

    def __neg__(self):
        return mk_int(-self.t)

    def __pos__(self):
        return self

    def __abs__(self):
        return mk_int(z3.If(self.t >= 0, self.t, -self.t))

    def __floordiv__(self, o):
        if isinstance(o, (SymInt, int)) and not isinstance(o, bool):
            # python floor division; z3 div is euclidean: equal for positive divisor
            b = _zi(o)
            if isinstance(o, int):
                if o > 0:
                    return mk_int(self.t / b)
                if o == 0:
                    raise ZeroDivisionError("integer division by zero")
                return mk_int(_floordiv_neg(self.t, o))
            cur().assume_internal(b > 0, "floordiv by symbolic divisor: only positive divisors modelled")
            return mk_int(self.t / b)
        return NotImplemented

    def __rfloordiv__(self, o):
        if isinstance(o, int) and not isinstance(o, bool):
            cur().assume_internal(self.t > 0, "floordiv by symbolic divisor: only positive divisors modelled")
            return mk_int(z3.IntVal(o) / self.t)
        return NotImplemented

    def __mod__(self, o):
        if isinstance(o, int) and not isinstance(o, bool) and o > 0:
            return mk_int(self.t % z3.IntVal(o))
        return NotImplemented

    def __truediv__(self, o):
        return SymFloat(_zr(self)) / o

    def __rtruediv__(self, o):
        return o / SymFloat(_zr(self))

    def _cmp(self, o, f):
        if isinstance(o, (SymFloat, float)) and not isinstance(o, bool):
            return f(SymFloat(_zr(self)), o)
        if isinstance(o, (SymInt, SymBool, int)):
            return mk_bool(f(self.t, _zi(o)))
        return NotImplemented

    def __lt__(self, o):
        return self._cmp(o, lambda a, b: a < b)

    def __le__(self, o):
        return self._cmp(o, lambda a, b: a <= b)

    def __gt__(self, o):
        return self._cmp(o, lambda a, b: a > b)

    def __ge__(self, o):
        return self._cmp(o, lambda a, b: a >= b)

    def __eq__(self, o):
        if o is None or isinstance(o, (str, tuple, list, dict)):
            return False
        return self._cmp(o, lambda a, b: a == b)

    def __ne__(self, o):
        if o is None or isinstance(o, (str, tuple, list, dict)):
            return True
        return self._cmp(o, lambda a, b: a != b)

    __hash__ = None

    def __bool__(self):
        return cur().decide(self.t != 0)

    def __int__(self):
        return cur().concretize(self.t)

    __index__ = __int__

    def __repr__(self):
        return "SymInt(%s)" % (self.t,)


def _floordiv_neg(t, o):
    # floor(t / o) for o < 0  ==  floor((-t) / (-o))
    return (-t) / z3.IntVal(-o)


class SymFloat:
    """A finite real with an optional symbolic NaN flag ``nan`` (z3 Bool).

    The value is ``k * r`` where ``r`` is a z3 Real term and ``k`` a concrete positive rational
    pulled out of the term.  Scaling by a concrete constant only changes ``k``; sums, ratios,
    comparisons and if-then-else of values with equal ``k`` work on the raw terms, so the analysis of
    ``a * x`` for a concrete ``a`` builds the *same* z3 terms as the analysis of ``x`` (ratios cancel
    exactly, comparisons hit the decision cache) and stays linear.  ``t`` is the materialised term."""
    __slots__ = ('r', 'k', 'nan', '_t')

    def __init__(self, t, nan=None, k=1):
        self.r = t
        self.k = k
        self.nan = nan
        self._t = t if k == 1 else None

    @property
    def t(self):
        if self._t is None:
            self._t = _realval_frac(self.k) * self.r
        return self._t

    # -- helpers
    @staticmethod
    def _nanflag(a, b):
        fa = a.nan if isinstance(a, SymFloat) else None
        fb = b.nan if isinstance(b, SymFloat) else None
        if fa is None:
            return fb
        if fb is None:
            return fa
        return z3.Or(fa, fb)

    def _scaled(self, c):
        """self * c for a concrete finite c."""
        c = _frac(c)
        if c == 0:
            # 0 * finite = 0, 0 * NaN = NaN
            return SymFloat(_realval(0), self.nan) if self.nan is not None else f64(0.0)
        if c > 0:
            return SymFloat(self.r, self.nan, self.k * c)
        return SymFloat(-self.r, self.nan, self.k * (-c))

    def _arith(self, o, f, rev=False, opname=''):
        if isinstance(o, (str, list, tuple, dict)) or o is None:
            return NotImplemented
        if _nonfinite(o):
            return _nonfinite_arith(self, o, opname, rev)
        if isinstance(o, (int, float, fractions.Fraction)) and not isinstance(o, bool):
            if opname == 'mul':
                return self._scaled(o)
            if o == 0 and opname in ('add', 'sub'):
                return (-self if rev else self) if opname == 'sub' else self
        if isinstance(o, SymFloat):
            nf = SymFloat._nanflag(self, o)
            if opname == 'mul':
                return SymFloat(self.r * o.r, nf, self.k * o.k)
            if o.k == self.k:
                a, b = self.r, o.r
                return SymFloat(f(b, a) if rev else f(a, b), nf, self.k)
        if isinstance(o, (SymFloat, SymInt, SymBool, int, float, fractions.Fraction)):
            a, b = self.t, _zr(o)
            t = f(b, a) if rev else f(a, b)
            return SymFloat(t, SymFloat._nanflag(self, o))
        return NotImplemented

    def __add__(self, o):
        return self._arith(o, lambda a, b: a + b, False, 'add')

    def __radd__(self, o):
        return self._arith(o, lambda a, b: a + b, True, 'add')

    def __sub__(self, o):
        return self._arith(o, lambda a, b: a - b, False, 'sub')

    def __rsub__(self, o):
        return self._arith(o, lambda a, b: a - b, True, 'sub')

    def __mul__(self, o):
        return self._arith(o, lambda a, b: a * b, False, 'mul')

    def __rmul__(self, o):
        return self._arith(o, lambda a, b: a * b, True, 'mul')

    def __neg__(self):
        return SymFloat(-self.r, self.nan, self.k)

    def __pos__(self):
        return self

    def __abs__(self):
        return SymFloat(z3.If(self.r >= 0, self.r, -self.r), self.nan, self.k)

    def __truediv__(self, o):
        return sym_div(self, o)

    def __rtruediv__(self, o):
        return sym_div(o, self)

    def _cmp(self, o, f, ne=False):
        if o is None or isinstance(o, (str, list, tuple, dict)):
            return NotImplemented
        if _nonfinite(o):
            return _nonfinite_cmp(self, o, f, ne)
        if isinstance(o, (SymFloat, SymInt, SymBool, int, float, fractions.Fraction)):
            if isinstance(o, SymFloat) and o.k == self.k:
                c = f(self.r, o.r)            # k > 0: same order as the scaled values
            elif isinstance(o, (int, float)) and not isinstance(o, bool) and o == 0:
                c = f(self.r, _realval(0))
            else:
                c = f(self.t, _zr(o))
            nf = SymFloat._nanflag(self, o)
            if nf is not None:
                c = z3.Or(nf, c) if ne else z3.And(z3.Not(nf), c)
            return mk_bool(c)
        return NotImplemented

    def __lt__(self, o):
        return self._cmp(o, lambda a, b: a < b)

    def __le__(self, o):
        return self._cmp(o, lambda a, b: a <= b)

    def __gt__(self, o):
        return self._cmp(o, lambda a, b: a > b)

    def __ge__(self, o):
        return self._cmp(o, lambda a, b: a >= b)

    def __eq__(self, o):
        r = self._cmp(o, lambda a, b: a == b)
        return False if r is NotImplemented else r

    def __ne__(self, o):
        r = self._cmp(o, lambda a, b: a != b, ne=True)
        return True if r is NotImplemented else r

    __hash__ = None

    def __bool__(self):
        return bool(self != 0)

    def __float__(self):
        raise ModelGap("float() of a symbolic real")

    def __format__(self, spec):
        return '<sym>'        # only ever used for axis labels / messages

    def __int__(self):
        """int() truncates toward zero; the integer part is concretised by forking."""
        if self.nan is not None and bool(mk_bool(self.nan)):
            raise ValueError("cannot convert float NaN to integer")
        if bool(mk_bool(self.r >= 0)):
            return cur().concretize(z3.ToInt(self.t))
        return -cur().concretize(z3.ToInt(-self.t))

    def __round__(self, ndigits=None):
        """round() to an integer: half to even; the result is concretised by forking.
        round(x, n) with n given stays symbolic (sym_round)."""
        if ndigits is not None:
            return sym_round(self, ndigits)
        if self.nan is not None and bool(mk_bool(self.nan)):
            raise ValueError("cannot convert float NaN to integer")
        e = cur()
        fl = e.concretize(z3.ToInt(self.t))              # floor
        frac2 = 2 * (self.t - fl)                         # in [0, 2)
        if bool(mk_bool(frac2 < 1)):
            return fl
        if bool(mk_bool(frac2 > 1)):
            return fl + 1
        return fl if fl % 2 == 0 else fl + 1

    def __repr__(self):
        return "SymFloat(%s*%s%s)" % (self.k, self.r, '' if self.nan is None else ' nan?%s' % self.nan)


def _realval_frac(k):
    r = _RV.get(k)
    if r is None:
        r = z3.RealVal(str(fractions.Fraction(k)))
        if len(_RV) < 4096:
            _RV[k] = r
    return r


def _nonfinite_arith(s, o, opname, rev):
    """Symbolic finite-or-NaN ``s`` combined with concrete nan / +-inf ``o``."""
    if o != o:
        return f64('nan')
    if s.nan is not None and bool(mk_bool(s.nan)):
        return f64('nan')
    if opname == 'add':
        return f64(o)
    if opname == 'sub':
        return f64(-o) if not rev else f64(o)
    if opname == 'mul':
        if bool(s == 0):
            return f64('nan')
        return f64(o) if bool(s > 0) else f64(-o)
    raise ModelGap("non-finite arithmetic " + opname)


def _nonfinite_cmp(s, o, f, ne):
    if o != o:
        return bool(ne)
    if s.nan is not None and bool(mk_bool(s.nan)):
        return bool(ne)
    # finite vs +-inf : evaluate with a finite stand-in on the correct side
    big = 1 if o > 0 else -1
    r = f(z3.RealVal(0), z3.RealVal(big))
    r = z3.simplify(r)
    return bool(z3.is_true(r))


def sym_div(a, b):
    """numpy-style true division where at least one side is symbolic."""
    if isinstance(a, (SymInt, SymBool)):
        a = SymFloat(_zr(a))
    if isinstance(b, (SymInt, SymBool)):
        b = SymFloat(_zr(b))
    if a is None or b is None or isinstance(a, (str, list, tuple, dict)) or isinstance(b, (str, list, tuple, dict)):
        return NotImplemented
    # concrete non-finite operand
    if _nonfinite(a) or _nonfinite(b):
        if (isinstance(a, float) and a != a) or (isinstance(b, float) and b != b):
            return f64('nan')
        s = a if isinstance(a, SymFloat) else b
        if s.nan is not None and bool(mk_bool(s.nan)):
            return f64('nan')
        if _nonfinite(b):   # finite / inf -> 0
            return f64(0.0)
        # inf / finite sym
        if bool(b == 0):
            return f64(a)    # inf/0 = inf (sign of +0)
        return f64(a) if bool(b > 0) else f64(-a)
    # divisor
    if isinstance(b, SymFloat):
        if b.nan is not None and bool(mk_bool(b.nan)):
            return f64('nan')
        if bool(mk_bool(b.r == 0)):
            # x / 0
            if isinstance(a, SymFloat):
                if a.nan is not None and bool(mk_bool(a.nan)):
                    return f64('nan')
                if bool(mk_bool(a.r == 0)):
                    return f64('nan')
                return f64('inf') if bool(mk_bool(a.r > 0)) else f64('-inf')
            return f64(conc_div(float(a), 0.0))
        if isinstance(a, SymFloat):
            return SymFloat(a.r / b.r, SymFloat._nanflag(a, b), fractions.Fraction(a.k) / fractions.Fraction(b.k))
        if isinstance(a, (int, float, fractions.Fraction)):
            if a == 0:
                return SymFloat(_realval(0), b.nan) if b.nan is not None else f64(0.0)
            return SymFloat(_zr(a) / b.t, b.nan)
        bt = b.t
    else:
        if b == 0:
            if isinstance(a, SymFloat):
                if a.nan is not None and bool(mk_bool(a.nan)):
                    return f64('nan')
                if bool(mk_bool(a.r == 0)):
                    return f64('nan')
                pos = bool(mk_bool(a.r > 0))
                return f64('inf') if pos else f64('-inf')
            return f64(conc_div(float(a), float(b)))
        if isinstance(a, SymFloat):
            return a._scaled(1 / _frac(b))
        bt = _zr(b)
    at = _zr(a)
    nf = SymFloat._nanflag(a, b)
    return SymFloat(at / bt, nf)


def sym_round(x, decimals=0):
    """round(x, decimals) of a symbolic real as a real term: floor(x * 10^d + 1/2) / 10^d.  (Exact ties go up
    instead of to-even: a tie needs x * 10^d + 1/2 to be an integer, and the difference is one unit in the
    last kept digit - irrelevant for the question asked of it: does rounding change a value at all.)"""
    if not isinstance(x, SymFloat):
        return x
    d = int(decimals)
    scale = fractions.Fraction(10) ** d
    t = z3.ToReal(z3.ToInt(x.t * _realval_frac(scale) + _realval_frac(fractions.Fraction(1, 2)))) / _realval_frac(scale)
    return SymFloat(t, x.nan)


def ite(c, a, b):
    """if-then-else that stays symbolic when the condition is symbolic."""
    if not isinstance(c, SymBool):
        return a if c else b
    if isinstance(a, (SymBool, bool)) and isinstance(b, (SymBool, bool)):
        return mk_bool(z3.If(c.t, _zb(a), _zb(b)))
    if _nonfinite(a) or _nonfinite(b):
        return a if bool(c) else b
    if isinstance(a, SymFloat) and isinstance(b, SymFloat) and a.k == b.k and a.nan is None and b.nan is None:
        return SymFloat(z3.If(c.t, a.r, b.r), None, a.k)
    if isinstance(a, (SymFloat, float)) or isinstance(b, (SymFloat, float)):
        fa = a.nan if isinstance(a, SymFloat) else None
        fb = b.nan if isinstance(b, SymFloat) else None
        nf = None
        if fa is not None or fb is not None:
            nf = z3.If(c.t, fa if fa is not None else z3.BoolVal(False),
                       fb if fb is not None else z3.BoolVal(False))
        return SymFloat(z3.If(c.t, _zr(a), _zr(b)), nf)
    if isinstance(a, (SymInt, int)) and isinstance(b, (SymInt, int)):
        return mk_int(z3.If(c.t, _zi(a), _zi(b)))
    return a if bool(c) else b


def is_nan(x):
    if isinstance(x, SymFloat):
        return False if x.nan is None else mk_bool(x.nan)
    if isinstance(x, float):
        return x != x
    return False


def truth(x):
    """Force a python bool (a decision if symbolic)."""
    return bool(x)


# --------------------------------------------------------------------------- explorer


class Violation:
    def __init__(self, label, values, detail, prefix):
        self.label = label
        self.values = values      # dict name -> python value (concrete witness)
        self.detail = detail
        self.prefix = prefix


class Explorer:
    """Depth-first exploration of all feasible paths of ``fn`` (re-executed per path)."""

    def __init__(self, query_timeout_ms=20000, max_paths=200000, seed=0, deadline_s=None):
        self.query_timeout_ms = query_timeout_ms
        self.max_paths = max_paths
        self.seed = seed
        self.deadline = None if deadline_s is None else time.time() + deadline_s
        # statistics
        self.n_paths = 0
        self.n_aborted = 0
        self.n_decisions = 0
        self.n_queries = 0
        self.n_retries = 0
        self._m = None
        self.dump, self.dump_max, self.dump_every = None, 0, 1
        self.n_obligations = 0
        self.n_discharged = 0
        self.solver_time = 0.0
        self.violations = []
        self.inconclusive = []
        self.internal_assumptions = set()
        self.paths_reaching_assert = 0
        # per-path state
        self.solver = None
        self.model = None
        self.prefix = []
        self.pos = 0
        self.trace = []
        self.vars = {}
        self.path_reached_assert = False
        self.on_path_end = None

    # ---- variables
    def _declare(self, name, mk):
        if name in self.vars:
            raise RuntimeError("variable %s declared twice on one path" % name)
        v = mk(name)
        self.vars[name] = v
        return v

    def fresh_real(self, name, nan_allowed=False):
        t = self._declare(name, z3.Real)
        if nan_allowed:
            nf = self._declare(name + '#nan', z3.Bool)
            return SymFloat(t, nf)
        return SymFloat(t)

    def fresh_int(self, name):
        return SymInt(self._declare(name, z3.Int))

    def fresh_bool(self, name):
        return SymBool(self._declare(name, z3.Bool))

    # ---- solver plumbing
    def _check(self):
        """check() on the incremental solver; on ``unknown`` retry on fresh (non-incremental)
        solvers with other seeds and longer time-outs.  The model of a ``sat`` answer is left in
        ``self._m``."""
        t0 = time.time()
        self.n_queries += 1
        r = self.solver.check()
        if self.dump is not None and len(self.dump) < self.dump_max and r != z3.unknown and self.n_queries % self.dump_every == 0:
            self.dump.append((self.solver.to_smt2(), str(r)))
        if r == z3.sat:
            self._m = self.solver.model()
        elif r == z3.unknown:
            asserts = self.solver.assertions()
            for k, to in enumerate((4000, 15000, self.query_timeout_ms, 3 * self.query_timeout_ms)):
                if self.solver_factory is not None:
                    if k < 2:
                        continue
                    s2 = self.solver_factory()
                else:
                    s2 = z3.Solver()
                    s2.set('random_seed', 17 * k + 3)
                s2.set('timeout', to)
                s2.add(asserts)
                self.n_retries += 1
                r = s2.check()
                if r == z3.sat:
                    self._m = s2.model()
                if r != z3.unknown:
                    break
        self.solver_time += time.time() - t0
        if self.deadline is not None and time.time() > self.deadline:
            self.inconclusive.append("deadline exceeded")
            raise Inconclusive("deadline exceeded")
        return r

    def _eval_bool(self, t):
        if self.model is None:
            return None
        v = self.model.eval(t, model_completion=True)
        if z3.is_true(v):
            return True
        if z3.is_false(v):
            return False
        return None

    def _refresh_model(self):
        r = self._check()
        if r == z3.sat:
            self.model = self._m
            return True
        if r == z3.unsat:
            return False
        self.inconclusive.append("solver returned unknown on a path condition")
        raise Inconclusive("unknown")

    def decide(self, t):
        """Return the truth value of z3 Bool ``t`` on this path, forking if both are feasible."""
        t = z3.simplify(t)
        if z3.is_true(t):
            return True
        if z3.is_false(t):
            return False
        # already decided on this path (hash-consed term identity; the term is kept alive)
        hit = self.decided.get(t.get_id())
        if hit is not None:
            return hit[1]
        if z3.is_not(t):
            hit = self.decided.get(t.arg(0).get_id())
            if hit is not None:
                return not hit[1]
        val = self._decide(t)
        self.decided[t.get_id()] = (t, val)
        return val

    def _decide(self, t):
        self.n_decisions += 1
        if self.pos < len(self.prefix):
            kind, val = self.prefix[self.pos]
            if kind != 'b':
                raise RuntimeError("non-deterministic replay (expected bool decision)")
            self.pos += 1
            self.solver.add(t if val else z3.Not(t))
            self.trace.append(('b', val))
            if self.pos == len(self.prefix):
                self.model = self._pending_model
                if self.model is None and not self._refresh_model():
                    raise PathAbort()
            return val
        # new decision: follow the current model, try the other side
        mv = self._eval_bool(t)
        if mv is None:
            if not self._refresh_model():
                raise PathAbort()
            mv = self._eval_bool(t)
            if mv is None:
                mv = True
        other = z3.Not(t) if mv else t
        self.solver.push()
        self.solver.add(other)
        r = self._check()
        if r == z3.sat:
            om = self._m
            self.solver.pop()
            self._schedule(self.trace + [('b', not mv)], om)
        elif r == z3.unsat:
            self.solver.pop()
        else:
            self.solver.pop()
            self.inconclusive.append("solver returned unknown (%s) on a branch condition: %s" % (self.solver.reason_unknown(), str(t)[:300]))
            raise Inconclusive("unknown")
        self.solver.add(t if mv else z3.Not(t))
        self.trace.append(('b', mv))
        return mv

    def concretize(self, t):
        """Fork over the feasible integer values of z3 Int ``t``."""
        t = z3.simplify(t)
        if z3.is_int_value(t):
            return t.as_long()
        while True:
            self.n_decisions += 1
            if self.pos < len(self.prefix):
                kind, val = self.prefix[self.pos]
                if kind != 'v':
                    raise RuntimeError("non-deterministic replay (expected value decision)")
                self.pos += 1
                v, taken = val
                self.solver.add(t == v if taken else t != v)
                self.trace.append(('v', (v, taken)))
                if self.pos == len(self.prefix):
                    self.model = self._pending_model
                    if self.model is None and not self._refresh_model():
                        raise PathAbort()
                if taken:
                    return v
                continue
            if self.model is None and not self._refresh_model():
                raise PathAbort()
            mv = self.model.eval(t, model_completion=True)
            if not z3.is_int_value(mv):
                raise ModelGap("cannot concretise %s" % t)
            v = mv.as_long()
            self.solver.push()
            self.solver.add(t != v)
            r = self._check()
            if r == z3.sat:
                om = self._m
                self.solver.pop()
                self._schedule(self.trace + [('v', (v, False))], om)
            elif r == z3.unsat:
                self.solver.pop()
            else:
                self.solver.pop()
                self.inconclusive.append("solver returned unknown while concretising")
                raise Inconclusive("unknown")
            self.solver.add(t == v)
            self.trace.append(('v', (v, True)))
            return v

    def _schedule(self, prefix, model):
        self.worklist.append((prefix, model))

    def assume(self, c, note=None):
        if isinstance(c, SymBool):
            t = c.t
        elif isinstance(c, bool):
            if not c:
                raise PathAbort()
            return
        else:
            t = _zb(c)
        if self.pos < len(self.prefix):
            self.solver.add(t)
            return
        self.solver.add(t)
        mv = self._eval_bool(t)
        if mv is not True:
            if not self._refresh_model():
                raise PathAbort()

    def assume_internal(self, t, note):
        self.internal_assumptions.add(note)
        self.assume(mk_bool(t))

    def use_solver(self, factory, timeout_ms):
        """Switch this path to another solver construction (e.g. a bit-blasting tactic for QF_FP)."""
        self.solver_factory = factory
        old = self.solver.assertions()
        self.solver = factory()
        self.solver.set('timeout', timeout_ms)
        self.solver.add(old)

    def grid_values(self, extra=None):
        """Try to find a float-exact model of the path (and ``extra``): every real variable a
        multiple of 1/8 in [-512, 512] (thresholds etc. included).  Such witnesses replay on the
        real libraries without rounding artefacts.  Returns (values, on_grid)."""
        self.solver.push()
        try:
            if extra is not None:
                self.solver.add(extra)
            self.solver.push()
            for name, v in self.vars.items():
                if z3.is_real(v) and name != 'pi':
                    g = z3.Int('grid!' + name)
                    self.solver.add(v * 8 == z3.ToReal(g), g >= -4096, g <= 4096)
            self.n_queries += 1
            old = self.solver.check()
            if old == z3.sat:
                vals = model_values(self.solver.model(), self.vars)
                self.solver.pop()
                return vals, True
            self.solver.pop()
            if extra is None:
                return None, False
            r = self.solver.check()
            if r == z3.sat:
                return model_values(self.solver.model(), self.vars), False
            return None, False
        finally:
            self.solver.pop()

    def diverse_witness(self):
        """A witness of the current path whose real / integer variables are, as far as the path
        condition allows, pairwise different small non-zero grid values (used for model-gap paths,
        where the real code is run instead: an all-zero witness would hide most defects)."""
        import random
        rng = random.Random(len(self.vars) * 7919 + self.n_paths)
        self.solver.push()
        try:
            k = 0
            for name, v in self.vars.items():
                if name == 'pi':
                    continue
                if z3.is_bool(v):
                    # booleans (masks, labels): a random value where the path condition allows it
                    want = rng.random() < 0.6
                    self.solver.push()
                    self.solver.add(v if want else z3.Not(v))
                    self.n_queries += 1
                    if self.solver.check() != z3.sat:
                        self.solver.pop()
                    continue
                if not (z3.is_real(v) or z3.is_int(v)):
                    continue
                k += 1
                for attempt in range(3):
                    cand = (k * 3 + rng.randrange(1, 9) + 5 * attempt)
                    c = z3.RealVal(cand) / 4 if z3.is_real(v) else z3.IntVal(cand % 7 + attempt)
                    self.solver.push()
                    self.solver.add(v == c)
                    self.n_queries += 1
                    if self.solver.check() == z3.sat:
                        break          # keep this assignment (stays pushed)
                    self.solver.pop()
            if self.solver.check() == z3.sat:
                return model_values(self.solver.model(), self.vars)
        except z3.Z3Exception:
            pass
        finally:
            # pop everything pushed in this call
            while True:
                try:
                    self.solver.pop()
                except z3.Z3Exception:
                    break
                if self.solver.num_scopes() == 0:
                    break
        return self.witness()

    def witness(self):
        """Concrete values of all declared variables under the current model."""
        if self.model is None:
            if not self._refresh_model():
                raise PathAbort()
        return model_values(self.model, self.vars)

    def prove(self, c, label, detail=None):
        """Check that ``c`` holds on every input following this path."""
        self.path_reached_assert = True
        if self.pos < len(self.prefix):
            return True      # already decided by the path this prefix was forked from
        self.n_obligations += 1
        if isinstance(c, bool):
            if c:
                self.n_discharged += 1
                return True
            self._violation(label, self.witness(), detail)
            return False
        t = _zb(c)
        self.solver.push()
        self.solver.add(z3.Not(t))
        r = self._check()
        if r == z3.unsat:
            self.solver.pop()
            self.n_discharged += 1
            return True
        if r == z3.sat:
            m = self._m
            vals = model_values(m, self.vars)
            self.solver.pop()
            gv, on_grid = self.grid_values(z3.Not(t))
            self._violation(label, gv if on_grid else vals, detail)
            return False
        self.solver.pop()
        self.inconclusive.append("solver returned unknown on obligation %s" % label)
        raise Inconclusive("unknown")

    def reachable(self, label='reach'):
        """Reachability witness: records that the assertion site was reached on a feasible path."""
        self.path_reached_assert = True

    def _violation(self, label, vals, detail):
        self.violations.append(Violation(label, vals, detail, list(self.trace)))

    def fail(self, label, detail=None):
        """Unconditional failure on this (feasible) path, e.g. an unexpected exception."""
        self.path_reached_assert = True
        if self.pos < len(self.prefix):
            return
        self.n_obligations += 1
        # every input on this path fails alike: report one with diverse, non-zero values
        self._violation(label, self.diverse_witness(), detail)

    # ---- main loop
    def run(self, fn, max_violations=50, initial=None, split_at=None):
        """Explore all feasible paths of ``fn``.

        ``initial``  : decision prefix of the subtree to explore (default: the whole tree).
        ``split_at`` : if set, explore breadth-first only until the work-list holds that many
                       disjoint unexplored subtrees, then stop and leave them in
                       ``self.worklist`` (their prefixes partition the unexplored paths)."""
        global _EXPLORER
        self.worklist = [(list(initial) if initial else [], None)]
        self.split_done = False
        _EXPLORER = self
        try:
            while self.worklist:
                if split_at is not None and len(self.worklist) >= split_at:
                    self.split_done = True
                    break
                if self.n_paths >= self.max_paths:
                    self.inconclusive.append("path cap %d hit" % self.max_paths)
                    break
                if len(self.violations) >= max_violations:
                    self.inconclusive.append("violation cap hit; exploration stopped early")
                    break
                prefix, model = self.worklist.pop(0) if split_at is not None else self.worklist.pop()
                self.solver_factory = None
                self.solver = z3.Solver()
                self.solver.set('timeout', min(3000, self.query_timeout_ms))
                self.solver.set('random_seed', self.seed % 1000)
                self.prefix = prefix
                self._pending_model = model
                self.model = model if not prefix else None
                self.pos = 0
                self.trace = []
                self.vars = {}
                self.decided = {}
                self.path_reached_assert = False
                self.n_paths += 1
                try:
                    fn()
                    if self.pos < len(self.prefix):
                        raise RuntimeError("non-deterministic replay (prefix not consumed)")
                    if self.path_reached_assert:
                        self.paths_reaching_assert += 1
                    if self.on_path_end is not None:
                        self.on_path_end(self)
                except PathAbort:
                    self.n_aborted += 1
                except Inconclusive:
                    break
        finally:
            _EXPLORER = None
        return self

    def prove_all(self, items, lemma=False):
        """One query for a conjunction of (condition, label) obligations; on failure the
        first conjunct falsified by the counterexample is reported under its own label.
        ``lemma``: once proved, the conjunction is added to the path condition (sound: it was
        just shown to follow from it) so that later obligations can build on it."""
        self.path_reached_assert = True
        if self.pos < len(self.prefix):
            if lemma:
                for c, _ in items:
                    if not isinstance(c, bool):
                        self.solver.add(_zb(c))
            return True
        sym = []
        ok = True
        for c, label in items:
            if isinstance(c, bool):
                self.n_obligations += 1
                if c:
                    self.n_discharged += 1
                else:
                    self._violation(label, self.witness(), None)
                    ok = False
            else:
                sym.append((_zb(c), label))
        if not sym:
            return ok
        self.n_obligations += len(sym)
        self.solver.push()
        self.solver.add(z3.Not(z3.And([t for t, _ in sym])))
        r = self._check()
        if r == z3.unsat:
            self.solver.pop()
            self.n_discharged += len(sym)
            if lemma:
                for t, _ in sym:
                    self.solver.add(t)
            return ok
        if r == z3.sat:
            m = self._m
            vals = model_values(m, self.vars)
            bad, bad_t = None, None
            for t, label in sym:
                if z3.is_false(m.eval(t, model_completion=True)):
                    bad, bad_t = label, t
                    break
            self.solver.pop()
            if bad_t is not None:
                gv, on_grid = self.grid_values(z3.Not(bad_t))
                if on_grid:
                    vals = gv
            self._violation(bad or sym[0][1], vals, None)
            return False
        self.solver.pop()
        self.inconclusive.append("solver returned unknown on obligations %s.." % sym[0][1])
        raise Inconclusive("unknown")


def model_values(model, vars_):
    out = {}
    for name, v in vars_.items():
        mv = model.eval(v, model_completion=True)
        out[name] = z3val(mv)
    return out


def z3val(mv):
    if z3.is_true(mv):
        return True
    if z3.is_false(mv):
        return False
    if z3.is_int_value(mv):
        return mv.as_long()
    if z3.is_bv_value(mv):
        return mv.as_long()
    if z3.is_rational_value(mv):
        fr = fractions.Fraction(mv.numerator_as_long(), mv.denominator_as_long())
        return fr
    if z3.is_algebraic_value(mv):
        return fractions.Fraction(mv.approx(20).as_fraction())
    raise ModelGap("unexpected model value %s" % mv)


def concrete_under(model, x):
    """Evaluate a (possibly symbolic) scalar under ``model`` to a python value."""
    if isinstance(x, SymBool):
        return z3val(model.eval(x.t, model_completion=True))
    if isinstance(x, SymInt):
        return z3val(model.eval(x.t, model_completion=True))
    if isinstance(x, SymFloat):
        if x.nan is not None and z3.is_true(model.eval(x.nan, model_completion=True)):
            return float('nan')
        return z3val(model.eval(x.t, model_completion=True))
    return x
