"""Floating-point kernels (DESIGN.md 2.6).

The real-arithmetic encoding used everywhere else cannot see IEEE rounding.  The only place where
rounding changes *which sample* bycycle picks are the seconds <-> samples conversions of the plot
code, limit_df and limit_signal.  This module reads those functions from /repo's CURRENT source,
finds the conversions in the AST (time-axis constructions, ``int(...)`` offsets, comparisons of
sample indices / times against limits), translates each into QF_FP (Float64, round-nearest-even;
``int`` truncates, ``round`` rounds half to even, numpy's arange length is ceil((stop-start)/step)
computed in double) and asks z3 whether, for a sampling rate fs from a stated list and a sample
index in one binade [2^k, 2^(k+1)), the conversion can pick a different sample than exact
arithmetic would.  x-limits "on the sample grid" are the correctly rounded quotients a / fs.

An expression shape the translator does not understand makes the kernel INCONCLUSIVE (never a
pass).  A satisfiable query is a concrete (fs, index) pair; it is replayed by evaluating the real
functions with real numpy (see harness/c20.py::run_fp on the real side)."""
import ast
import os

TARGETS = [
    ('bycycle/utils/dataframes.py', 'limit_df'),
    ('bycycle/utils/timeseries.py', 'limit_signal'),
    ('bycycle/plts/cyclepoints.py', 'plot_cyclepoints_array'),
    ('bycycle/plts/burst.py', 'plot_burst_detect_summary'),
    ('bycycle/plts/burst.py', 'plot_burst_detect_param'),
]
FS_QUICK = [1000.0, 250.0, 512.0]
FS_THOROUGH = [1000.0, 500.0, 250.0, 100.0, 256.0, 512.0, 128.0]


class NotUnderstood(Exception):
    pass


def repo_root():
    return os.environ.get('VCHECK_REPO', '/repo')


def _func(path, name):
    src = open(os.path.join(repo_root(), path)).read()
    for node in ast.walk(ast.parse(src)):
        if isinstance(node, ast.FunctionDef) and node.name == name:
            return node
    raise NotUnderstood('%s:%s not found' % (path, name))


def _mentions(node, names):
    return any(isinstance(n, ast.Name) and n.id in names for n in ast.walk(node))


def _is_np(node, attr):
    return isinstance(node, ast.Call) and isinstance(node.func, ast.Attribute) and node.func.attr == attr \
        and isinstance(node.func.value, ast.Name) and node.func.value.id == 'np'


def extract():
    """-> list of kernels: dict(id, path, func, line, kind, src, times_model)."""
    out = []
    for path, fname in TARGETS:
        fn = _func(path, fname)
        # time-axis constructions in this function
        models = {}
        for node in ast.walk(fn):
            if isinstance(node, ast.Assign) and len(node.targets) == 1 and isinstance(node.targets[0], ast.Name) \
                    and node.targets[0].id.startswith('times'):
                v = node.value
                m = None
                if _is_np(v, 'arange') and len(v.args) == 3:
                    m = 'arange3'
                elif isinstance(v, ast.BinOp) and isinstance(v.op, ast.Div) and _is_np(v.left, 'arange') and len(v.left.args) == 1:
                    m = 'arange1_div'
                elif _is_np(v, 'linspace') and len(v.args) == 3 and any(k.arg == 'endpoint' and isinstance(k.value, ast.Constant)
                                                                         and k.value.value is False for k in v.keywords):
                    m = 'linspace'
                elif _mentions(v, {'fs'}):
                    m = 'unknown'       # some other construction of a time axis from fs: not understood
                if m is not None:
                    models[node.targets[0].id] = m
                    out.append(dict(path=path, func=fname, line=node.lineno, kind='times:' + m, src=ast.unparse(v)))
        tmodel = sorted(set(models.values()))
        # integer names (assigned from int(...)) are exact afterwards
        int_names = set()
        for node in ast.walk(fn):
            if isinstance(node, ast.Assign) and len(node.targets) == 1 and isinstance(node.targets[0], ast.Name):
                v = node.value
                if isinstance(v, ast.Call) and isinstance(v.func, ast.Name) and v.func.id == 'int':
                    int_names.add(node.targets[0].id)
        for node in ast.walk(fn):
            if isinstance(node, ast.Call) and isinstance(node.func, ast.Name) and node.func.id == 'int' and node.args \
                    and _mentions(node.args[0], {'fs'}) and _mentions(node.args[0], {'start', 'stop', 'xlim', 'times'}):
                out.append(dict(path=path, func=fname, line=node.lineno, kind='offset', src=ast.unparse(node),
                                times_models=tmodel))
            if isinstance(node, ast.Compare) and len(node.ops) == 1 and len(node.comparators) == 1:
                rhs = node.comparators[0]
                op = type(node.ops[0]).__name__
                if op not in ('GtE', 'Gt', 'LtE', 'Lt'):
                    continue
                if fname == 'limit_signal':
                    if isinstance(node.left, ast.Name) and node.left.id == 'times' and isinstance(rhs, ast.Name) \
                            and rhs.id in ('start', 'stop'):
                        out.append(dict(path=path, func=fname, line=node.lineno, kind='times_cmp', src=ast.unparse(node), op=op))
                    continue
                if isinstance(rhs, ast.Call) and isinstance(rhs.func, ast.Name) and rhs.func.id == 'int':
                    continue        # an int(...) conversion: decided as an 'offset' kernel
                if _mentions(rhs, {'fs'}) and _mentions(rhs, {'start', 'stop', 'xlim', 'times'}) and not _mentions(rhs, int_names):
                    out.append(dict(path=path, func=fname, line=node.lineno, kind='index_cmp', src=ast.unparse(node), op=op,
                                    times_models=tmodel))
    # callers' time-axis models are what limit_signal receives
    caller_models = sorted({k['kind'].split(':')[1] for k in out if k['kind'].startswith('times:')})
    for k in out:
        if k['kind'] == 'times_cmp':
            k['times_models'] = caller_models
        k['id'] = '%s:%s:%d:%s' % (k['path'].split('/')[-1], k['func'], k['line'], k['kind'])
    # identical shapes are decided once
    seen, uniq = {}, []
    for k in out:
        key = (k['kind'], k['src'], tuple(k.get('times_models', [])))
        if key in seen:
            seen[key]['also'].append(k['id'])
            continue
        k['also'] = []
        seen[key] = k
        uniq.append(k)
    return uniq


# --------------------------------------------------------------------------- translation

class FP:
    """tiny Float64 term builder over z3 (imported lazily: only the symbolic side has z3)."""

    def __init__(self):
        import z3
        self.z3 = z3
        self.F = z3.Float64()
        self.RNE = z3.RNE()

    def val(self, x):
        return self.z3.FPVal(float(x), self.F)

    def of_bv(self, bv):
        return self.z3.fpUnsignedToFP(self.RNE, bv, self.F)

    def bin(self, op, a, b):
        z3 = self.z3
        return {ast.Add: z3.fpAdd, ast.Sub: z3.fpSub, ast.Mult: z3.fpMul, ast.Div: z3.fpDiv}[op](self.RNE, a, b)


def translate(node, env, fp):
    """AST expression -> Float64 term.  ``env`` maps source sub-expressions (unparsed) to terms."""
    key = ast.unparse(node)
    if key in env:
        return env[key]
    if isinstance(node, ast.Constant) and isinstance(node.value, (int, float)) and not isinstance(node.value, bool):
        return fp.val(node.value)
    if isinstance(node, ast.BinOp) and type(node.op) in (ast.Add, ast.Sub, ast.Mult, ast.Div):
        return fp.bin(type(node.op), translate(node.left, env, fp), translate(node.right, env, fp))
    if isinstance(node, ast.UnaryOp) and isinstance(node.op, ast.USub):
        return fp.z3.fpNeg(translate(node.operand, env, fp))
    raise NotUnderstood('cannot translate %r' % key)


def elem(model, i_fp, fs_fp, fp, n_fp=None):
    """value of element i of the time axis."""
    if model == 'linspace':         # np.linspace(0, n/fs, n, endpoint=False)[i] = i * ((n/fs) / n)
        return fp.bin(ast.Mult, i_fp, fp.bin(ast.Div, fp.bin(ast.Div, n_fp, fs_fp), n_fp))
    if model == 'arange3':          # np.arange(0, n/fs, 1/fs)[i] = 0 + i * (1/fs)
        return fp.bin(ast.Mult, i_fp, fp.bin(ast.Div, fp.val(1.0), fs_fp))
    if model == 'arange1_div':      # (np.arange(n) / fs)[i] = i / fs
        return fp.bin(ast.Div, i_fp, fs_fp)
    raise NotUnderstood('time-axis model ' + model)


def int_like(node, env, fp, a_fp):
    """condition: python int(...) of the expression equals the index ``a`` (as Float64 term a_fp)."""
    z3 = fp.z3
    one, half = fp.val(1.0), fp.val(0.5)
    arg = node.args[0]
    if isinstance(arg, ast.Call) and ((isinstance(arg.func, ast.Name) and arg.func.id == 'round') or _is_np(arg, 'round')
                                      or _is_np(arg, 'rint')) and len(arg.args) == 1:
        x = translate(arg.args[0], env, fp)
        r = z3.fpRoundToIntegral(z3.RNE(), x)           # round half to even
        return z3.fpEQ(r, a_fp)
    x = translate(arg, env, fp)
    # int() truncates toward zero; indices are >= 0:  a <= x < a + 1
    return z3.And(z3.fpLEQ(a_fp, x), z3.fpLT(x, fp.bin(ast.Add, a_fp, one)))


def same_integers(op, rhs, k_fp, fp):
    """{integer X : X op rhs} == {integer X : X op k}."""
    z3 = fp.z3
    one = fp.val(1.0)
    lo, hi = fp.bin(ast.Sub, k_fp, one), fp.bin(ast.Add, k_fp, one)
    if op in ('GtE', 'Lt'):        # k-1 < rhs <= k
        return z3.And(z3.fpLT(lo, rhs), z3.fpLEQ(rhs, k_fp))
    return z3.And(z3.fpLEQ(k_fp, rhs), z3.fpLT(rhs, hi))     # Gt, LtE: k <= rhs < k+1


def obligations(kernel, fs, a_bv, fp, n_bv=None):
    """-> list of (z3 Bool that must hold, description) for index ``a`` (BitVec) and rate fs
    (``n_bv``: signal length, only needed for time axes whose elements depend on it)."""
    z3 = fp.z3
    a = fp.of_bv(a_bv)
    nf = fp.of_bv(n_bv) if n_bv is not None else None
    fsv = fp.val(fs)
    kind = kernel['kind']
    node = ast.parse(kernel['src'], mode='eval').body
    grid = fp.bin(ast.Div, a, fsv)                        # an x-limit on the sample grid: a / fs
    out = []
    if kind == 'times:arange3':
        # length = ceil((stop - 0) / step) must be n (= a)
        env = {ast.unparse(node.args[1].left): a, 'fs': fsv}
        stop = translate(node.args[1], env, fp)
        step = translate(node.args[2], env, fp)
        q = fp.bin(ast.Div, stop, step)
        out.append((z3.And(z3.fpLT(fp.bin(ast.Sub, a, fp.val(1.0)), q), z3.fpLEQ(q, a)),
                    'time axis has exactly one entry per sample'))
        return out
    if kind in ('times:arange1_div', 'times:linspace'):
        return out          # exact length by construction
    if kind == 'times:unknown':
        raise NotUnderstood('time axis built by %s' % kernel['src'])
    models = kernel.get('times_models') or ['arange3']
    if kind == 'offset':
        for m in models:
            env = {'fs': fsv, 'start': grid, 'stop': grid, 'xlim[0]': grid, 'xlim[1]': grid,
                   'times[0]': elem(m, a, fsv, fp, nf), 'times[-1]': elem(m, a, fsv, fp, nf)}
            out.append((int_like(node, env, fp, a), 'sample offset equals the index of the limit (%s time axis)' % m))
        return out
    if kind == 'index_cmp':
        rhs_node = node.comparators[0]
        for m in models:
            env = {'fs': fsv, 'start': grid, 'stop': grid, 'xlim[0]': grid, 'xlim[1]': grid,
                   'times[0]': elem(m, a, fsv, fp, nf), 'times[-1]': elem(m, a, fsv, fp, nf)}
            rhs = translate(rhs_node, env, fp)
            out.append((same_integers(kernel['op'], rhs, a, fp),
                        'comparison selects the same samples as the exact limit (%s time axis)' % m))
        return out
    if kind == 'times_cmp':
        op = kernel['op']
        am1 = fp.bin(ast.Sub, a, fp.val(1.0))
        for m in models:
            ta, tb = elem(m, a, fsv, fp, nf), elem(m, am1, fsv, fp, nf)
            cmpf = {'GtE': z3.fpGEQ, 'Gt': z3.fpGT, 'LtE': z3.fpLEQ, 'Lt': z3.fpLT}[op]
            want_a = op in ('GtE', 'LtE')       # times[a] op a/fs  as for exact reals
            want_b = op in ('Lt', 'LtE')        # times[a-1] op a/fs
            ca, cb = cmpf(ta, grid), cmpf(tb, grid)
            out.append((z3.And(ca if want_a else z3.Not(ca), cb if want_b else z3.Not(cb)),
                        'sample selection around a limit on the grid is exact (%s time axis)' % m))
        return out
    raise NotUnderstood(kind)


# --------------------------------------------------------------------------- harness entry points

def configs(tier):
    out = []
    try:
        kernels = extract()
    except (NotUnderstood, SyntaxError, OSError) as e:
        return [{'fn': 'fp', 'kernel': None, 'error': str(e)}]
    top = 14 if tier == 'quick' else 20
    for i, k in enumerate(kernels):
        if k['kind'] in ('times:arange1_div', 'times:linspace'):
            out.append({'fn': 'fp', 'kernel': i, 'id': k['id'], 'fs': 1000.0, 'k': 0, 'exact': True})
            continue
        for fs in (FS_QUICK if tier == 'quick' else FS_THOROUGH):
            for b in range(0, top):
                out.append({'fn': 'fp', 'kernel': i, 'id': k['id'], 'fs': fs, 'k': b})
    return out


def check(ctx, cfg):
    """symbolic side: one (kernel, fs, binade) query."""
    from engine import symx
    if cfg.get('kernel') is None:
        raise symx.ModelGap('floating-point kernels: ' + cfg.get('error', '?'))
    kernels = extract()
    kern = kernels[cfg['kernel']]
    if kern['id'] != cfg['id']:
        raise symx.ModelGap('kernel list changed during the run')
    if cfg.get('exact'):
        ctx.prove(True, 'time axis has one entry per sample by construction')
        return
    fp = FP()
    z3 = fp.z3
    E = ctx.E
    E.use_solver(lambda: z3.Then('simplify', 'fpa2bv', 'simplify', 'bit-blast', 'sat').solver(), E.query_timeout_ms * 6)
    a = E._declare('a', lambda n: z3.BitVec(n, 21))
    lo, hi = 1 << cfg['k'], 1 << (cfg['k'] + 1)
    E.solver.add(z3.UGE(a, lo), z3.ULT(a, hi))
    n_bv = None
    if 'linspace' in (kern.get('times_models') or []):
        n_bv = E._declare('n', lambda nm: z3.BitVec(nm, 21))      # signal length: index < n < 4 * 2^k
        E.solver.add(z3.UGT(n_bv, a), z3.ULT(n_bv, min(hi * 4, (1 << 21) - 1)))
    try:
        obl = obligations(kern, cfg['fs'], a, fp, n_bv)
    except NotUnderstood as e:
        raise symx.ModelGap('floating-point kernel %s not understood: %s' % (kern['id'], e))
    for cond, what in obl:
        ctx.prove(symx.SymBool(cond), '%s [%s] %s' % (kern['id'], kern['src'], what))
    if not obl:
        ctx.reachable()


def replay(ctx, cfg):
    """real side: evaluate the source expression with real numpy / Python floats for the witness."""
    import numpy as np
    kernels = extract()
    kern = kernels[cfg['kernel']]
    if cfg.get('exact'):
        return
    a = ctx.integer('a')
    fs = cfg['fs']
    node = ast.parse(kern['src'], mode='eval').body
    kind = kern['kind']
    grid = a / fs

    def label(what):
        return '%s [%s] %s' % (kern['id'], kern['src'], what)

    def times_elem(m, i):
        if m == 'arange3':
            return np.arange(0, (i + 2) / fs, 1 / fs)[i]
        if m == 'linspace':
            n = ctx.integer('n')
            return np.linspace(0, n / fs, n, endpoint=False)[i]
        return (np.arange(i + 2) / fs)[i]
    if kind == 'times:arange3':
        name = ast.unparse(node.args[1].left)          # e.g. len(sig)
        arr = eval(compile(ast.Expression(node), '<kernel>', 'eval'),
                   {'np': np, 'fs': fs, 'len': len, 'sig': np.zeros(a), 'sig_full': np.zeros(a)})
        ctx.prove(len(arr) == a, label('time axis has exactly one entry per sample'))
        return
    for m in kern.get('times_models') or ['arange3']:
        tarr = np.array([times_elem(m, a)])
        scope = {'np': np, 'fs': fs, 'start': grid, 'stop': grid, 'xlim': (grid, grid), 'times': tarr,
                 'int': int, 'round': round}
        if kind == 'offset':
            val = eval(compile(ast.Expression(node), '<kernel>', 'eval'), scope)
            ctx.prove(val == a, label('sample offset equals the index of the limit (%s time axis)' % m))
        elif kind == 'index_cmp':
            rhs = eval(compile(ast.Expression(node.comparators[0]), '<kernel>', 'eval'), scope)
            op = kern['op']
            ok = (a - 1 < rhs <= a) if op in ('GtE', 'Lt') else (a <= rhs < a + 1)
            ctx.prove(ok, label('comparison selects the same samples as the exact limit (%s time axis)' % m))
        elif kind == 'times_cmp':
            import operator
            f = {'GtE': operator.ge, 'Gt': operator.gt, 'LtE': operator.le, 'Lt': operator.lt}[kern['op']]
            ta, tb = times_elem(m, a), times_elem(m, a - 1)
            want_a, want_b = kern['op'] in ('GtE', 'LtE'), kern['op'] in ('Lt', 'LtE')
            ctx.prove(bool(f(ta, grid)) == want_a and bool(f(tb, grid)) == want_b,
                      label('sample selection around a limit on the grid is exact (%s time axis)' % m))
