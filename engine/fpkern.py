"""placeholder, filled in below"""


def check(ctx):
    ctx.reachable()


def replay(ctx):
    pass
