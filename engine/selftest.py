"""vcheck selftest: imports, source compiles under the engine's interpreter, model conformance."""
import sys
import os
import subprocess

ROOT = os.path.dirname(os.path.dirname(os.path.abspath(__file__)))


def main(argv):
    from models import env
    bad = 0
    for rel in env.source_hashes():
        p = os.path.join(env.REPO, rel)
        try:
            compile(open(p).read(), p, 'exec')
        except SyntaxError as e:
            print("HARNESS-ERROR: %s does not compile under %s: %s" % (rel, sys.version.split()[0], e))
            bad += 1
    import z3
    s = z3.Solver()
    x = z3.Real('x')
    s.add(x > 1, x < 2)
    assert s.check() == z3.sat
    r = subprocess.run(['/venv/bin/python', '-c', 'import numpy, pandas, neurodsp, scipy, matplotlib'],
                       capture_output=True, text=True)
    if r.returncode != 0:
        print("HARNESS-ERROR: real side cannot import its libraries: " + r.stderr[-500:])
        bad += 1
    conf = os.path.join(ROOT, 'realside', 'conformance.py')
    if os.path.exists(conf):
        r = subprocess.run([sys.executable, conf] + (['--fast'] if '--fast' in argv else []), cwd=ROOT)
        if r.returncode != 0:
            bad += 1
    if '--fast' not in argv:
        bad += two_solver_diff()
    print("selftest", "FAILED" if bad else "ok")
    return 3 if bad else 0


def two_solver_diff(n=60):
    """Dump a sample of the engine's queries as SMT-LIB2 and re-decide them with the system z3 4.8.12 and
    cvc5: any `(error` line or a disagreement with z3 5.1 is a harness error (DESIGN.md 2.8)."""
    import tempfile
    import shutil
    from models import env
    env.install_symbolic()
    from engine import symx, ctx as C
    import importlib
    samples = []
    for hname, cfg, every in (('c06', {'rows': 4}, 7), ('c08', {'n': 5, 'kind': 'array'}, 11), ('c03', {'n': 5, 'k': 3, 'first': 'peak'}, 13),
                              ('c18', {'fn': 'limit_signal', 'n': 3}, 3),
                              # machine-integer encoding (wrap-around as `mod 2^w` on mathematical integers)
                              ('c05', {'fn': 'monotonicity', 'n': 4, 'rows': 1, 'centre': 'peak', 'dtype': 'int16'}, 5)):
        h = importlib.import_module('harness.' + hname)
        E = symx.Explorer()
        E.dump, E.dump_max, E.dump_every = [], n // 5, every

        def body():
            env.reset()
            h.run(C.SymCtx(E), cfg)
        E.run(body)
        samples += E.dump
    # the wrap-around encoding itself: int16 / uint8 array arithmetic of the model against the two-case reference
    E = symx.Explorer()
    E.dump, E.dump_max, E.dump_every = [], 12, 1
    wrap_ok = []

    def wrap_body():
        env.reset()
        sc = C.SymCtx(E)
        np = sc.np
        for dt, lo, hi, m in (('int16', -32768, 32767, 65536), ('uint8', 0, 255, 256)):
            (a, b), arr = sc.int_signal(['a_' + dt, 'b_' + dt], dt)
            for got, exact in (((arr[0:1] + arr[1:2]).tolist()[0], a + b), ((arr[0:1] - arr[1:2]).tolist()[0], a - b),
                               ((-arr[0:1]).tolist()[0], -a)):
                ref = symx.ite(exact > hi, exact - m, symx.ite(exact < lo, exact + m, exact))
                wrap_ok.append(sc.prove(got == ref, 'machine-integer wrap-around equals the two-case reference (%s)' % dt))
    E.run(wrap_body)
    samples += E.dump
    if not wrap_ok or not all(wrap_ok) or E.violations:
        print("HARNESS-ERROR: machine-integer encoding self-test failed")
        return 3
    d = tempfile.mkdtemp(prefix='vdiff_')
    bad, decided = 0, 0
    try:
        for i, (smt, want) in enumerate(samples):
            p = os.path.join(d, 'q%d.smt2' % i)
            open(p, 'w').write(smt)
            for tool in (['/usr/bin/z3', '-T:20', p], ['cvc5', '--tlimit=20000', p]):
                try:
                    r = subprocess.run(tool, capture_output=True, text=True, timeout=40)
                except (OSError, subprocess.TimeoutExpired):
                    continue
                out = (r.stdout + r.stderr).strip()
                if '(error' in out:
                    print("HARNESS-ERROR: %s rejects a dumped query: %s" % (tool[0], out[:200]))
                    bad += 1
                    continue
                ans = out.splitlines()[0].strip() if out else ''
                if ans in ('sat', 'unsat'):
                    decided += 1
                    if ans != want:
                        print("HARNESS-ERROR: solver disagreement on %s: z3-5.1 says %s, %s says %s" % (p, want, tool[0], ans))
                        bad += 1
    finally:
        shutil.rmtree(d, ignore_errors=True)
    print("two-solver diff: %d queries dumped, %d second opinions, %d problems" % (len(samples), decided, bad))
    return bad
