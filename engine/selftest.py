"""vcheck selftest: imports, source compiles under the engine's interpreter, model conformance."""
import sys
import os
import subprocess

ROOT = os.path.dirname(os.path.dirname(os.path.abspath(__file__)))


def main(argv):
    from models import env
    bad = 0
    for rel in env.source_hashes():
        p = os.path.join(env.REPO, rel)
        try:
            compile(open(p).read(), p, 'exec')
        except SyntaxError as e:
            print("HARNESS-ERROR: %s does not compile under %s: %s" % (rel, sys.version.split()[0], e))
            bad += 1
    import z3
    s = z3.Solver()
    x = z3.Real('x')
    s.add(x > 1, x < 2)
    assert s.check() == z3.sat
    r = subprocess.run(['/venv/bin/python', '-c', 'import numpy, pandas, neurodsp, scipy, matplotlib'],
                       capture_output=True, text=True)
    if r.returncode != 0:
        print("HARNESS-ERROR: real side cannot import its libraries: " + r.stderr[-500:])
        bad += 1
    conf = os.path.join(ROOT, 'realside', 'conformance.py')
    if os.path.exists(conf):
        r = subprocess.run([sys.executable, conf] + (['--fast'] if '--fast' in argv else []), cwd=ROOT)
        if r.returncode != 0:
            bad += 1
    print("selftest", "FAILED" if bad else "ok")
    return 3 if bad else 0
