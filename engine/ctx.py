"""Harness contexts.  A harness is ``run(ctx, cfg)`` written once against this API and
executed (a) symbolically over the numpy/pandas models and (b) concretely on the real
libraries (witness validation and counterexample replay).  No z3 import here."""
import fractions
import importlib
import math
import traceback
import os


class AssumeViolated(BaseException):
    """real side: the concrete witness does not satisfy a harness precondition."""


def enc(v):
    """JSON encoding of witness values / observations."""
    if isinstance(v, bool) or v is None or isinstance(v, str):
        return v
    if isinstance(v, fractions.Fraction):
        if v.denominator == 1:
            return {'q': [int(v.numerator), 1]}
        return {'q': [int(v.numerator), int(v.denominator)]}
    if isinstance(v, int):
        return int(v)
    if isinstance(v, float):
        if v != v:
            return {'f': 'nan'}
        if v == float('inf'):
            return {'f': 'inf'}
        if v == float('-inf'):
            return {'f': '-inf'}
        return float(v)
    if isinstance(v, dict):
        return {'d': [[enc(k), enc(x)] for k, x in v.items()]}
    if isinstance(v, (list, tuple)):
        return [enc(x) for x in v]
    # numpy scalars / arrays on the real side
    if hasattr(v, 'tolist'):
        return enc(v.tolist())
    raise TypeError("cannot encode %r" % (type(v),))


def dec(v):
    if isinstance(v, dict):
        if 'q' in v:
            return fractions.Fraction(v['q'][0], v['q'][1])
        if 'f' in v:
            return float(v['f'])
        if 'd' in v:
            return {dec(k) if not isinstance(k, list) else tuple(dec(k)): dec(x) for k, x in v['d']}
    if isinstance(v, list):
        return [dec(x) for x in v]
    return v


def tofloat(v):
    if isinstance(v, fractions.Fraction):
        return v.numerator / v.denominator
    return v


def close(a, b, tol=1e-9):
    """Observation equality: numbers up to tolerance, NaN == NaN, structures recursively."""
    if isinstance(a, (list, tuple)) and isinstance(b, (list, tuple)):
        return len(a) == len(b) and all(close(x, y, tol) for x, y in zip(a, b))
    if isinstance(a, dict) and isinstance(b, dict):
        return set(a) == set(b) and all(close(a[k], b[k], tol) for k in a)
    if isinstance(a, bool) or isinstance(b, bool):
        if isinstance(a, (bool, int)) and isinstance(b, (bool, int)):
            return bool(a) == bool(b) if isinstance(a, bool) and isinstance(b, bool) else int(a) == int(b)
        return False
    if isinstance(a, (int, float, fractions.Fraction)) and isinstance(b, (int, float, fractions.Fraction)):
        fa, fb = float(a), float(b)
        if fa != fa or fb != fb:
            return fa != fa and fb != fb
        if fa in (float('inf'), float('-inf')) or fb in (float('inf'), float('-inf')):
            return fa == fb
        return abs(fa - fb) <= tol * max(1.0, abs(fa), abs(fb))
    return a == b


def bycycle_site(tb=None, exc=None):
    """file:line of the innermost bycycle frame of an exception's traceback."""
    if exc is not None:
        tb = exc.__traceback__
    site = None
    for fr in traceback.extract_tb(tb):
        fn = fr.filename.replace(os.sep, '/')
        if '/bycycle/' in fn and '/site-packages/' not in fn:
            site = 'bycycle/' + fn.split('/bycycle/', 1)[1] + ':' + str(fr.lineno)
    return site


def exc_label(e):
    return "unexpected %s at %s" % (type(e).__name__, bycycle_site(exc=e) or '?')


class BaseCtx:
    mode = None

    def mod(self, name):
        return importlib.import_module(name)

    def obs(self, key, value):
        self.observations[key] = value

    INT_RANGE = {'int8': (-128, 127), 'int16': (-32768, 32767), 'int32': (-2 ** 31, 2 ** 31 - 1),
                 'uint8': (0, 255), 'uint16': (0, 65535), 'uint32': (0, 2 ** 32 - 1)}

    def int_signal(self, names, dtype):
        """1-D array of the machine-integer type ``dtype`` whose elements are the integer variables ``names``
        (assumed inside the type's range); 'int' = the default int64."""
        vals = [self.integer(n) for n in names]
        if dtype in self.INT_RANGE:
            lo, hi = self.INT_RANGE[dtype]
            for v in vals:
                self.assume(v >= lo)
                self.assume(v <= hi)
        return vals, self._int_array(vals, dtype)

    def tolist(self, a):
        """array / Series / list -> python list (both sides)."""
        if hasattr(a, 'tolist'):
            return a.tolist()
        return list(a)


class RealCtx(BaseCtx):
    mode = 'real'

    def __init__(self, values):
        import numpy
        import pandas
        from models import env
        self.np = numpy
        self.pd = pandas
        self.env = env
        self.values = values
        self.failed = []
        self.observations = {}
        self.used = set()

    def _get(self, name):
        self.used.add(name)
        if name not in self.values:
            raise AssumeViolated("witness has no value for %s" % name)
        return self.values[name]

    def real(self, name, nan_allowed=False):
        if nan_allowed and self.values.get(name + '#nan'):
            self.used.add(name)
            return float('nan')
        return float(tofloat(self._get(name)))

    def integer(self, name):
        return int(self._get(name))

    def _int_array(self, vals, dtype):
        return self.np.array(list(vals), dtype=dtype)

    def lazy_signal(self, points, dtype=float):
        """signal known only at ``points`` = [(position, value)]: here a real array, zero elsewhere."""
        n = max(int(p) for p, _ in points) + 1
        if n > 50_000_000:
            raise AssumeViolated("witness positions too large to materialise")
        sig = self.np.zeros(n, dtype=dtype)
        for p, v in points:
            sig[int(p)] = v
        return sig

    def boolean(self, name):
        return bool(self._get(name))

    def assume(self, c, note=None):
        if not bool(c):
            raise AssumeViolated(note or 'assume')

    def prove(self, c, label, detail=None):
        ok = bool(c)
        if not ok:
            self.failed.append(label)
        return ok

    def fail(self, label, detail=None):
        self.failed.append(label)

    def prove_all(self, items, lemma=False):
        ok = True
        for c, label in items:
            if not bool(c):
                self.failed.append(label)
                ok = False
        return ok

    def reachable(self):
        pass

    def truth(self, x):
        return bool(x)

    def ite(self, c, a, b):
        return a if c else b

    def eq(self, a, b):
        """value equality (exact for ints/bools, tolerance for floats, NaN equals NaN)."""
        try:
            fa, fb = float(a), float(b)
        except (TypeError, ValueError):
            return a == b
        if fa != fa or fb != fb:
            return fa != fa and fb != fb
        if math.isinf(fa) or math.isinf(fb):
            return fa == fb
        return abs(fa - fb) <= 1e-9 * max(1.0, abs(fa), abs(fb))

    def isnan(self, x):
        try:
            return float(x) != float(x)
        except (TypeError, ValueError):
            return False

    def is_sym(self, x):
        return False

    def neg(self, x):
        return not bool(x)

    def conj(self, items):
        r = True
        for x in items:
            r = r and bool(x)
        return r

    def disj(self, items):
        r = False
        for x in items:
            r = r or bool(x)
        return r

    def concrete(self, x):
        return x

    def toint(self, x):
        return int(x)

    def symbolic_pi(self):
        return math.pi


class SymCtx(BaseCtx):
    mode = 'sym'

    def __init__(self, explorer):
        from engine import symx
        from models import np_model, pd_model, env
        self.symx = symx
        self.E = explorer
        self.np = np_model
        self.pd = pd_model
        self.env = env
        self.observations = {}

    def real(self, name, nan_allowed=False):
        return self.E.fresh_real(name, nan_allowed)

    def integer(self, name):
        return self.E.fresh_int(name)

    def lazy_signal(self, points, dtype=float):
        """signal known only at ``points`` = [(position, value)]; positions may be unbounded symbolic integers."""
        return self.np.LazyArray(points, self.np._type_kind(dtype))

    def _int_array(self, vals, dtype):
        np = self.np
        k = np._type_kind(dtype)
        vals = list(vals)          # in range by assumption: stored without the wrap-around term
        return np.ndarray(vals, list(range(len(vals))), (len(vals),), k)

    def boolean(self, name):
        return self.E.fresh_bool(name)

    def assume(self, c, note=None):
        self.E.assume(c, note)

    def prove(self, c, label, detail=None):
        return self.E.prove(c, label, detail)

    def fail(self, label, detail=None):
        self.E.fail(label, detail)

    def prove_all(self, items, lemma=False):
        return self.E.prove_all(items, lemma)

    def reachable(self):
        self.E.reachable()

    def truth(self, x):
        return bool(x)

    def ite(self, c, a, b):
        return self.symx.ite(c, a, b)

    def eq(self, a, b):
        if not self.symx._is_sym(a) and not self.symx._is_sym(b):
            return RealCtx.eq(self, a, b)      # concrete floats: same tolerance as on the real side
        na, nb = self.symx.is_nan(a), self.symx.is_nan(b)
        if na is False and nb is False:
            return a == b
        both = self.conj([na, nb])
        neither = self.conj([self.neg(na), self.neg(nb)])
        if isinstance(a, float) and a != a or isinstance(b, float) and b != b:
            return both
        return self.disj([both, self.conj([neither, a == b])])

    def neg(self, x):
        return (not x) if isinstance(x, bool) else ~x

    def isnan(self, x):
        return self.symx.is_nan(x)

    def is_sym(self, x):
        return self.symx._is_sym(x)

    def conj(self, items):
        r = True
        for x in items:
            if isinstance(x, bool):
                if not x:
                    return False
                continue
            r = x if r is True else (r & x)
        return r

    def disj(self, items):
        r = False
        for x in items:
            if isinstance(x, bool):
                if x:
                    return True
                continue
            r = x if r is False else (r | x)
        return r

    def toint(self, x):
        """Concretise a symbolic integer (forks over its feasible values)."""
        return int(x)

    def symbolic_pi(self):
        """numpy.pi becomes a real variable within 1e-13 of the float pi, so that every phase
        value is an exact linear term in one symbol."""
        v = self.E.fresh_real('pi')
        c = fractions.Fraction(math.pi)
        eps = fractions.Fraction(1, 10 ** 13)
        self.E.assume((v > c - eps) & (v < c + eps))
        self.np.PI_PROVIDER = lambda: v
        return v

    def concrete(self, x):
        """Evaluate under the current path model (for observations)."""
        return self.symx.concrete_under(self.E.model, x)
