"""vcheck driver: explores every configuration of a harness symbolically (16 workers),
validates path witnesses and replays counterexamples on the real code, applies the
known-findings protocol, writes evidence and decides the exit status (DESIGN.md 2.7, 7)."""
import sys
import os
import json
import time
import random
import hashlib
import importlib
import subprocess
import threading
import multiprocessing
import traceback

ROOT = os.path.dirname(os.path.dirname(os.path.abspath(__file__)))
REAL_PY = '/venv/bin/python'
EXIT_OK, EXIT_VIOLATION, EXIT_INCONCLUSIVE, EXIT_HARNESS = 0, 1, 2, 3

TIER_LIMITS = {
    'quick': dict(query_timeout_ms=20000, max_paths=400000, cfg_deadline_s=900, witness_per_cfg=6),
    'thorough': dict(query_timeout_ms=120000, max_paths=4000000, cfg_deadline_s=3000, witness_per_cfg=24),
}


# --------------------------------------------------------------------------- symbolic worker

_INSTALLED = []


_COVER = {}


def _install_cover(repo):
    """build-time aid (VCHECK_COVER=<dir>): record which lines of the code under test the harnesses execute."""
    if _COVER:
        return
    import atexit
    prefix = os.path.join(repo, 'bycycle') + os.sep
    seen = set()
    _COVER['seen'] = seen

    def local(frame, event, arg):
        if event == 'line':
            seen.add((frame.f_code.co_filename, frame.f_lineno))
        return local

    def tracer(frame, event, arg):
        if frame.f_code.co_filename.startswith(prefix):
            seen.add((frame.f_code.co_filename, frame.f_lineno))
            return local
        return None

    def dump():
        d = os.environ['VCHECK_COVER']
        os.makedirs(d, exist_ok=True)
        with open(os.path.join(d, 'cov_%d.json' % os.getpid()), 'w') as f:
            json.dump(sorted(seen), f)
    _COVER['dump'] = dump
    sys.settrace(tracer)


def _explore(task):
    """Runs in a forked worker: explore one configuration of one harness."""
    hname, cfg, tier, seed, limits, prefix, split_at = task
    t0 = time.time()
    out = dict(cfg=cfg, subtrees=[], gaps=[], paths=0, aborted=0, decisions=0, queries=0, obligations=0, discharged=0,
               solver_time=0.0, retries=0, violations=[], inconclusive=[], witnesses=[], reach=0,
               internal_assumptions=[], error=None, wall=0.0)
    try:
        if ROOT not in sys.path:
            sys.path.insert(0, ROOT)
        from models import env
        if not _INSTALLED:
            import warnings
            warnings.simplefilter('ignore')
            env.install_symbolic()
            _INSTALLED.append(True)
        from engine import symx, ctx as C
        import z3
        h = importlib.import_module('harness.' + hname)
        E = symx.Explorer(query_timeout_ms=limits['query_timeout_ms'], max_paths=limits['max_paths'],
                          seed=seed, deadline_s=limits['cfg_deadline_s'])
        rng = random.Random(seed * 7919 + hash(json.dumps(cfg, sort_keys=True)) % 100003)
        want = limits['witness_per_cfg'] if prefix is None else max(1, limits['witness_per_cfg'] // 6)
        state = {'ctx': None, 'seen': 0}

        if os.environ.get('VCHECK_COVER'):
            _install_cover(env.REPO)

        def body():
            env.reset()
            sys.modules['numpy'].PI_PROVIDER = None
            sc = C.SymCtx(E)
            state['ctx'] = sc
            try:
                h.run(sc, cfg)
            except symx.ModelGap as g:
                # the model does not cover what the code did on this path: hand the path witness to the
                # real side (a failure there is a genuine, replayed violation); the run is otherwise
                # inconclusive, never a pass
                out['gaps'].append(dict(msg=str(g)[:300], values={k2: C.enc(v) for k2, v in E.diverse_witness().items()}))
                if len(out['gaps']) >= 10:
                    E.inconclusive.append('model gap: %s' % str(g)[:200])
                    raise symx.Inconclusive('model gap')
                raise symx.PathAbort()

        def on_end(E_):
            sc = state['ctx']
            if not E_.path_reached_assert:
                return
            state['seen'] += 1
            k = state['seen']
            # reservoir sample of path witnesses
            if len(out['witnesses']) < want:
                slot = len(out['witnesses'])
                out['witnesses'].append(None)
            else:
                j = rng.randrange(k)
                if j >= want:
                    return
                slot = j
            gv, on_grid = E_.grid_values()
            if on_grid:
                # float-exact witness: evaluate the observations under exactly these values
                sub = z3.Solver()
                for name, v in E_.vars.items():
                    val = gv[name]
                    if isinstance(val, bool):
                        sub.add(v == val)
                    elif isinstance(val, int):
                        sub.add(v == val)
                    else:
                        sub.add(v == z3.RealVal(str(val)))
                sub.check()
                model, vals = sub.model(), gv
            else:
                vals = E_.witness()
                model = E_.model
            obs = _concretise(sc.observations, model, symx)
            out['witnesses'][slot] = dict(values={k2: C.enc(v) for k2, v in vals.items()}, obs=C.enc(obs), grid=on_grid)

        E.on_path_end = on_end
        E.run(body, initial=prefix, split_at=split_at)
        if split_at is not None and E.split_done:
            out['subtrees'] = [pfx for pfx, _ in E.worklist]
        out.update(paths=E.n_paths, aborted=E.n_aborted, decisions=E.n_decisions, queries=E.n_queries,
                   obligations=E.n_obligations, discharged=E.n_discharged, solver_time=E.solver_time, retries=E.n_retries,
                   inconclusive=list(E.inconclusive), reach=E.paths_reaching_assert,
                   internal_assumptions=sorted(E.internal_assumptions))
        for v in E.violations:
            out['violations'].append(dict(label=v.label, detail=v.detail,
                                          values={k2: C.enc(x) for k2, x in v.values.items()}))
    except BaseException as e:   # ModelGap, harness bugs, ...
        out['error'] = '%s: %s\n%s' % (type(e).__name__, e,
                                       ''.join(traceback.format_exception(type(e), e, e.__traceback__))[-2500:])
    out['witnesses'] = [w for w in out['witnesses'] if w is not None]
    if _COVER:
        _COVER['dump']()
    out['wall'] = time.time() - t0
    return out


def _concretise(x, model, symx):
    if isinstance(x, dict):
        return {k: _concretise(v, model, symx) for k, v in x.items()}
    if isinstance(x, (list, tuple)):
        return [_concretise(v, model, symx) for v in x]
    if hasattr(x, 'tolist') and not isinstance(x, (int, float)):
        return _concretise(x.tolist(), model, symx)
    return symx.concrete_under(model, x)


# --------------------------------------------------------------------------- real side pool

class RealServer:
    def __init__(self):
        env = dict(os.environ)
        env['PYTHONDONTWRITEBYTECODE'] = '1'
        env.setdefault('MPLBACKEND', 'Agg')
        self.p = subprocess.Popen([REAL_PY, os.path.join(ROOT, 'realside', 'server.py')],
                                  stdin=subprocess.PIPE, stdout=subprocess.PIPE, stderr=subprocess.DEVNULL,
                                  text=True, env=env, cwd=ROOT)
        line = self.p.stdout.readline()
        if not line:
            raise RuntimeError("real-side server failed to start")
        self.hello = json.loads(line)

    def ask(self, req):
        self.p.stdin.write(json.dumps(req) + '\n')
        self.p.stdin.flush()
        line = self.p.stdout.readline()
        if not line:
            raise RuntimeError("real-side server died")
        return json.loads(line)

    def close(self):
        try:
            self.p.stdin.close()
            self.p.wait(timeout=5)
        except Exception:
            self.p.kill()


class RealPool:
    def __init__(self, n=6):
        self.servers = []
        ths = []
        res = [None] * n

        def start(i):
            try:
                res[i] = RealServer()
            except Exception as e:
                res[i] = e
        for i in range(n):
            t = threading.Thread(target=start, args=(i,))
            t.start()
            ths.append(t)
        for t in ths:
            t.join()
        for r in res:
            if isinstance(r, Exception):
                raise r
            self.servers.append(r)

    @property
    def hashes(self):
        return self.servers[0].hello.get('hashes', {})

    def map(self, reqs):
        n = len(self.servers)
        out = [None] * len(reqs)

        def work(si):
            for i in range(si, len(reqs), n):
                try:
                    out[i] = self.servers[si].ask(reqs[i])
                except Exception as e:
                    out[i] = dict(failed=[], obs=None, assume_violated=None, error='real-side protocol failure: %r' % (e,))
                    try:
                        self.servers[si].close()
                        self.servers[si] = RealServer()
                    except Exception:
                        pass
        ths = [threading.Thread(target=work, args=(si,)) for si in range(n)]
        for t in ths:
            t.start()
        for t in ths:
            t.join()
        return out

    def close(self):
        for s in self.servers:
            s.close()


# --------------------------------------------------------------------------- known findings

def load_known():
    p = os.path.join(ROOT, 'known_findings.json')
    if not os.path.exists(p):
        return {'known': [], 'fixed': []}
    return json.load(open(p))


def match_known(known, pid, label, cfg):
    for k in known.get('known', []):
        if k.get('property') != pid:
            continue
        m = k.get('match', {})
        if 'label' in m and m['label'] != label:
            continue
        if 'label_prefix' in m and not label.startswith(m['label_prefix']):
            continue
        sub = m.get('cfg', {})
        if any(cfg.get(a) != b for a, b in sub.items()):
            continue
        return k
    return None


# --------------------------------------------------------------------------- main entry

def run_check(pid, tier, seed):
    t0 = time.time()
    hname = pid.lower()
    sys.path.insert(0, ROOT)
    h = importlib.import_module('harness.' + hname)
    limits = dict(TIER_LIMITS[tier])
    limits.update(getattr(h, 'LIMITS', {}).get(tier, {}))
    cfgs = h.configs(tier)
    rng = random.Random(seed)
    order = list(range(len(cfgs)))
    rng.shuffle(order)   # seed only affects scheduling / sampling, never the verdict
    split = getattr(h, 'split', None)
    tasks = [(hname, cfgs[i], tier, seed, limits, None, (split(cfgs[i], tier) if split else None) or None)
             for i in order]

    nproc = int(os.environ.get('VCHECK_JOBS', '16'))
    # model conformance against the real numpy / pandas runs alongside (a mismatch = harness error)
    conf = subprocess.Popen([sys.executable, os.path.join(ROOT, 'realside', 'conformance.py')], cwd=ROOT,
                            stdout=subprocess.PIPE, stderr=subprocess.STDOUT, text=True)
    from concurrent.futures import ProcessPoolExecutor, wait, FIRST_COMPLETED
    mp = multiprocessing.get_context('fork')
    # heavy configs first improves balance when the harness provides a cost estimate
    cost = getattr(h, 'cost', None)
    if cost is not None:
        tasks.sort(key=lambda t: -cost(t[1]))
    results = []
    with ProcessPoolExecutor(max_workers=nproc, mp_context=mp) as ex:
        pending = {ex.submit(_explore, t) for t in tasks}
        while pending:
            done, pending = wait(pending, return_when=FIRST_COMPLETED)
            for fut in done:
                r = fut.result()
                results.append(r)
                for pfx in r.pop('subtrees', []):
                    pending.add(ex.submit(_explore, (hname, r['cfg'], tier, seed, limits, pfx, None)))
    conf_out = conf.communicate()[0]
    if conf.returncode != 0:
        print(conf_out[-3000:])
        print("HARNESS-ERROR: numpy/pandas model conformance failed; nothing is claimed")
        return EXIT_HARNESS
    try:
        real = RealPool(int(os.environ.get('VCHECK_REAL_JOBS', '8')))
    except Exception as e:
        print("HARNESS-ERROR: cannot start the real side: %s" % e)
        return EXIT_HARNESS
    try:
        return _finish(pid, hname, h, tier, seed, results, real, t0, limits, conf_out.strip().splitlines()[-1])
    finally:
        real.close()


def _finish(pid, hname, h, tier, seed, results, real, t0, limits, conformance=''):
    from models import env
    known = load_known()
    status = EXIT_OK
    messages = []
    errors = [r for r in results if r['error']]
    inconcl = ['%s [cfg=%s]' % (m, json.dumps(r['cfg'], sort_keys=True)) for r in results for m in r['inconclusive']]

    # --- witness validation on the real implementation
    wreqs, wmeta = [], []
    for r in results:
        for w in r['witnesses']:
            wreqs.append(dict(harness=hname, cfg=r['cfg'], values=w['values'], want_obs=True))
            wmeta.append((r['cfg'], w))
    wres = real.map(wreqs) if wreqs else []
    from engine import ctx as C
    validated, wit_bad, wit_skipped = 0, [], 0
    for (cfg, w), rr in zip(wmeta, wres):
        if rr['error']:
            wit_bad.append(dict(cfg=cfg, values=w['values'], why='real-side error: ' + rr['error'][-600:]))
            continue
        if rr['assume_violated']:
            wit_skipped += 1     # float rounding of a rational witness left the precondition
            continue
        so, ro = C.dec(w['obs']), C.dec(rr['obs'])
        if C.close(so, ro):
            validated += 1
        elif not w.get('grid'):
            wit_skipped += 1     # rational witness off the float-exact grid: rounding may flip a tie
        else:
            wit_bad.append(dict(cfg=cfg, values=w['values'], why='observation mismatch',
                                sym=w['obs'], real=rr['obs']))
    # --- counterexample replay
    vreqs, vmeta = [], []
    per_label = {}
    import re as _re
    n_cex_total = 0
    for r in results:
        for v in r['violations']:
            n_cex_total += 1
            sig = _re.sub(r'\d+', '#', v['label'])
            per_label[sig] = per_label.get(sig, 0) + 1
            if per_label[sig] > 6:
                continue     # replay at most 6 counterexamples per (normalised) label
            vreqs.append(dict(harness=hname, cfg=r['cfg'], values=v['values'], want_obs=True))
            vmeta.append((r['cfg'], v))
    # model-gap witnesses are run on the real code as well: a failure there is a genuine violation
    n_gaps = 0
    for r in results:
        for g in r.get('gaps', []):
            n_gaps += 1
            if n_gaps > 60:
                break
            rr0 = real.map([dict(harness=hname, cfg=r['cfg'], values=g['values'], want_obs=False)])[0]
            if rr0['failed'] and not rr0['error']:
                vreqs.append(dict(harness=hname, cfg=r['cfg'], values=g['values'], want_obs=True))
                vmeta.append((r['cfg'], dict(label=rr0['failed'][0], values=g['values'], detail='found through a model-gap witness: ' + g['msg'])))
            else:
                inconcl.append('model gap (real run of the path witness passes): %s [cfg=%s]' % (g['msg'], json.dumps(r['cfg'], sort_keys=True)))
    vres = real.map(vreqs) if vreqs else []
    n_viol, n_known, not_repro = 0, 0, []
    seen_known, seen_viol = set(), set()
    os.makedirs(os.path.join(ROOT, 'replays'), exist_ok=True)
    for f in os.listdir(os.path.join(ROOT, 'replays')):
        if f.startswith(pid + '-'):
            os.remove(os.path.join(ROOT, 'replays', f))
    for (cfg, v), rr in zip(vmeta, vres):
        label = v['label']
        # labels recorded before a later precondition / missing-variable stop are legitimate: all earlier
        # preconditions held when they were recorded
        reproduced = (label in rr['failed']) and not rr['error']
        if not reproduced:
            not_repro.append(dict(cfg=cfg, label=label, values=v['values'], real_failed=rr['failed'],
                                  real_error=rr['error'], assume=rr['assume_violated']))
            continue
        k = match_known(known, pid, label, cfg)
        if k is not None:
            key = k.get('id', k.get('what'))
            if key not in seen_known:
                seen_known.add(key)
                messages.append("KNOWN-FINDING: property=%s %s" % (pid, k.get('what', label)))
            n_known += 1
            continue
        n_viol += 1
        import re as _re
        sig = _re.sub(r'\d+', '#', label)
        if sig in seen_viol or len(seen_viol) >= 8:
            continue
        seen_viol.add(sig)
        rep = dict(property=pid, harness=hname, cfg=cfg, values=v['values'], label=label, detail=v.get('detail'),
                   real_obs=rr['obs'])
        hsh = hashlib.sha256(json.dumps(rep, sort_keys=True).encode()).hexdigest()[:12]
        path = os.path.join(ROOT, 'replays', '%s-%s.json' % (pid, hsh))
        json.dump(rep, open(path, 'w'), indent=1)
        messages.append("VIOLATION property=%s replay=%s" % (pid, path))
        messages.append("  # %s  cfg=%s" % (label, json.dumps(cfg, sort_keys=True)))

    paths = sum(r['paths'] for r in results)
    reach = sum(r['reach'] for r in results)
    if n_viol:
        status = EXIT_VIOLATION
    if errors or wit_bad or not_repro:
        status = EXIT_HARNESS if status == EXIT_OK else status
    elif inconcl and status == EXIT_OK:
        status = EXIT_INCONCLUSIVE
    # vacuity guard: every configuration must reach its assertions on >= 1 feasible path
    by_cfg = {}
    for r in results:
        k = json.dumps(r['cfg'], sort_keys=True)
        by_cfg.setdefault(k, [r['cfg'], 0, False])
        by_cfg[k][1] += r['reach']
        by_cfg[k][2] = by_cfg[k][2] or bool(r['error'])
    vacuous = [c for c, reach_c, err in by_cfg.values() if not err and reach_c == 0
               and not getattr(h, 'may_be_vacuous', lambda c: False)(c)]
    if vacuous and status == EXIT_OK:
        status = EXIT_HARNESS

    for e in errors[:5]:
        messages.append("HARNESS-ERROR: cfg=%s %s" % (json.dumps(e['cfg'], sort_keys=True), e['error'][:1500]))
    for w in wit_bad[:5]:
        messages.append("HARNESS-ERROR: witness validation failed cfg=%s why=%s" %
                        (json.dumps(w['cfg'], sort_keys=True), w['why'][:800]))
        if 'sym' in w:
            messages.append("   values=%s\n   sym=%s\n   real=%s" % (json.dumps(w['values'])[:600],
                                                                    json.dumps(w['sym'])[:600], json.dumps(w['real'])[:600]))
    for nr in not_repro[:5]:
        messages.append("HARNESS-ERROR: counterexample not reproduced on the real code: label=%s cfg=%s real_failed=%s assume=%s err=%s"
                        % (nr['label'], json.dumps(nr['cfg'], sort_keys=True), nr['real_failed'], nr['assume'],
                           (nr['real_error'] or '')[-500:]))
        messages.append("   values=%s" % json.dumps(nr['values'])[:800])
    for c in vacuous[:5]:
        messages.append("HARNESS-ERROR: vacuous configuration (no feasible path reaches an assertion): %s" % json.dumps(c))
    for m in sorted(set(inconcl))[:5]:
        messages.append("INCONCLUSIVE: %s" % m)

    # --- optional cross-check by a second, independent symbolic engine (CrossHair) in the thorough tier
    crosshair = None
    ch_file = getattr(h, 'CROSSHAIR', None)
    if ch_file and tier == 'thorough':
        try:
            cp = subprocess.run([sys.executable, '-m', 'crosshair', 'check', '--report_all', '--per_condition_timeout', '300',
                                 os.path.join(ROOT, ch_file)], capture_output=True, text=True, timeout=1200, cwd=ROOT)
            out_lines = (cp.stdout + cp.stderr).strip().splitlines()
            crosshair = dict(file=ch_file, output=out_lines[-6:])
            confirmed = any('Confirmed over all paths' in ln for ln in out_lines)
            refuted = any(': error:' in ln and 'false when calling' in ln for ln in out_lines)
            crosshair['verdict'] = 'refuted' if refuted else ('confirmed' if confirmed else 'inconclusive')
            if refuted and status == EXIT_OK:
                status = EXIT_HARNESS
                messages.append("HARNESS-ERROR: CrossHair reports a counterexample where symx proved the property: %s" % out_lines[-3:])
        except Exception as e:
            crosshair = dict(file=ch_file, verdict='inconclusive', output=[repr(e)])

    # --- evidence
    samples = []
    for (cfg, w), rr in list(zip(wmeta, wres))[:3]:
        samples.append(dict(cfg=cfg, witness_inputs=w['values'], observed=w['obs']))
    if not samples:
        samples.append(dict(note='no witness sampled', cfgs=[r['cfg'] for r in results][:3]))
    hashes = env.source_hashes()
    ev = dict(
        property_id=pid, tier=tier, seed=seed, level='model_checking',
        coverage=dict(
            states=max(paths, 1) if paths else 0, transitions=sum(r['decisions'] for r in results),
            traces_validated_against_impl=validated, samples=samples,
            obligations=sum(r['obligations'] for r in results),
            discharged=sum(r['discharged'] for r in results),
            exhaustive=(not inconcl and not errors),
            configurations=len(by_cfg), tasks=len(results), paths_reaching_assertion=reach,
            paths_aborted_by_assume=sum(r['aborted'] for r in results),
            solver_queries=sum(r['queries'] for r in results),
            solver_time_s=round(sum(r['solver_time'] for r in results), 2),
            solver_retries_after_unknown=sum(r['retries'] for r in results),
            cpu_s=round(sum(r['wall'] for r in results), 1),
            witnesses_sampled=len(wreqs), witnesses_skipped_rounding=wit_skipped,
            counterexamples=n_cex_total, counterexamples_replayed=len(vreqs), counterexamples_reproduced=n_viol + n_known,
            known_findings=n_known, not_reproduced=len(not_repro), model_gap_paths=n_gaps, model_conformance=conformance,
            inconclusive=sorted(set(inconcl)), harness_errors=len(errors) + len(wit_bad),
            functions_encoded=getattr(h, 'FUNCTIONS', []), source_sha256_16=hashes,
            bounds=getattr(h, 'BOUNDS', {}).get(tier, ''), outside_bounds=getattr(h, 'OUTSIDE', ''),
            stubs=getattr(h, 'STUBS', []),
            engine='symx (operator-overloading symbolic execution of the unmodified bycycle source; z3 %s)' % _z3v(),
            explanation=getattr(h, '__doc__', '') or ''),
        assumptions=list(getattr(h, 'ASSUMPTIONS', [])) +
        sorted({a for r in results for a in r['internal_assumptions']}),
        wall_s=round(time.time() - t0, 2), violations=n_viol, exit_status=status)
    if ev['coverage']['states'] == 0:
        ev['coverage']['states'] = 0
    # evidence describes /repo; build-time runs against a mutated copy (VCHECK_REPO) must not overwrite it
    evdir = os.environ.get('VCHECK_EVIDENCE_DIR') or (os.path.join(ROOT, 'evidence') if 'VCHECK_REPO' not in os.environ
                                                      else os.path.join('/tmp', 'vcheck_mutant_evidence'))
    os.makedirs(evdir, exist_ok=True)
    json.dump(ev, open(os.path.join(evdir, pid + '.json'), 'w'), indent=1, default=str)

    if os.environ.get('VCHECK_STATS'):
        agg = {}
        for r in results:
            k = json.dumps(r['cfg'], sort_keys=True)
            a = agg.setdefault(k, [0, 0, 0.0])
            a[0] += r['paths']; a[1] += r['reach']; a[2] += r['wall']
        for k, a in sorted(agg.items(), key=lambda kv: -kv[1][2])[:25]:
            print("STATS paths=%d reach=%d cpu=%.1fs %s" % (a[0], a[1], a[2], k))
    for m in messages:
        print(m)
    print("%s tier=%s status=%d configs=%d paths=%d reach=%d obligations=%d discharged=%d queries=%d "
          "validated=%d/%d violations=%d known=%d wall=%.1fs" %
          (pid, tier, status, len(results), paths, reach, ev['coverage']['obligations'],
           ev['coverage']['discharged'], ev['coverage']['solver_queries'], validated, len(wreqs),
           n_viol, n_known, time.time() - t0))
    return status


def _z3v():
    try:
        out = subprocess.run([sys.executable, '-c', 'import z3;print(z3.get_version_string())'],
                             capture_output=True, text=True, timeout=30)
        return out.stdout.strip()
    except Exception:
        return '?'


def replay(path):
    rep = json.load(open(path))
    real = RealPool(1)
    try:
        rr = real.map([dict(harness=rep['harness'], cfg=rep['cfg'], values=rep['values'], want_obs=True)])[0]
    finally:
        real.close()
    print(json.dumps(dict(label=rep['label'], cfg=rep['cfg'], values=rep['values'], real_failed=rr['failed'],
                          real_error=rr['error'], real_obs=rr['obs']), indent=1))
    if rep['label'] in rr['failed']:
        print("REPRODUCED property=%s label=%s" % (rep['property'], rep['label']))
        return 1
    print("NOT-REPRODUCED property=%s label=%s" % (rep['property'], rep['label']))
    return 0
