"""C13 -- epoched (axis=None) analysis partitions the flattened analysis.

epoch_df and compute_features_2d(axis=None) run for real; compute_features is cut to a recorder
returning an ARBITRARY cycle table obeying the C01 invariant (sample columns symbolic integers,
feature cells symbolic reals / NaN, labels symbolic booleans), the re-labelling uses the real
detect_bursts_cycles / detect_bursts_amp.  epoch_len is an unbounded symbolic integer >= 1."""
import inspect
from engine.ctx import exc_label
from harness import c06, c18

FUNCTIONS = ['bycycle.utils.dataframes.epoch_df', 'bycycle.group.features.compute_features_2d',
             'bycycle.burst.cycle.detect_bursts_cycles', 'bycycle.burst.amp.detect_bursts_amp']
BOUNDS = {'quick': '1..3 epochs, 0..3 cycles, both centrings, every epoch_len >= 1 and every placement (cycle boundaries on epoch boundaries and empty epochs included); options None / dict / per-epoch list, both burst methods',
          'thorough': 'epoch_df: 1..5 epochs, 0..6 cycles; compute_features_2d: 1..5 epochs of 4 samples and 1..3 epochs of 7 samples, up to 6 resp. 4 cycles'}
OUTSIDE = 'more epochs / cycles; return_samples=False with axis=None (not part of the statement)'
STUBS = ['compute_features -> arbitrary C01-conforming table (recorder)']
ASSUMPTIONS = ['C01 invariant for the flattened table; closing side extrema lie inside the flattened signal',
               'an epoch "contains" a closing extremum on either half-open convention (the statement does not fix it)']


def configs(tier):
    q = tier == 'quick'
    out = []
    for ne in ((1, 2, 3) if q else (1, 2, 3, 4, 5)):
        for rows in range(0, (3 if q else 6) + 1):
            for centre in ('peak', 'trough'):
                if centre == 'trough' and rows not in (2, 3):
                    continue
                out.append({'fn': 'epoch_df', 'epochs': ne, 'rows': rows, 'centre': centre})
                for el in ((4,) if q else (4, 7)):
                    for kw in ('none', 'dict', 'list'):
                        for method in ('cycles', 'amp'):
                            if rows == 0 or (method == 'amp' and (centre == 'trough' or kw == 'none')):
                                continue
                            if kw == 'none' and centre != 'peak':
                                continue
                            if 2 * rows + 1 > el * ne or (el != 4 and (ne > 3 or rows > 4)) or (ne > 3 and rows > 4):
                                continue
                            cfg = {'fn': '2d', 'epochs': ne, 'rows': rows, 'centre': centre, 'kw': kw, 'method': method}
                            if el != 4:
                                cfg['el'] = el
                            out.append(cfg)
    # epoch_df called directly with a signal whose length is not a whole number of epochs: the trailing, shorter epoch counts
    for ne in (1, 2):
        for rows in (1, 2, 3):
            out.append({'fn': 'epoch_df', 'epochs': ne, 'rows': rows, 'centre': 'peak', 'rem': True})
    # the same option object(s) used for a second analysis
    for kw in ('dict', 'list'):
        out.append({'fn': '2d', 'epochs': 2, 'rows': 3, 'centre': 'trough', 'kw': kw, 'method': 'cycles', 'repeat': True})
    # epochs stored column-major / as the transpose of a (samples, epochs) recording
    for lay in ('F', 'T'):
        out.append({'fn': '2d', 'epochs': 2, 'rows': 2, 'centre': 'peak', 'kw': 'dict', 'method': 'cycles', 'layout': lay})
        out.append({'fn': '2d', 'epochs': 3, 'rows': 3, 'centre': 'peak', 'kw': 'list', 'method': 'cycles', 'layout': lay})
    return out


def cost(cfg):
    return (3.0 ** cfg['rows']) * cfg['epochs'] * (4 if cfg['fn'] == '2d' else 1)


def split(cfg, tier):
    return 32 if cost(cfg) > 300 else None


def flat_table(ctx, rows, centre, sig_len, method):
    data, scols = c18.sample_table(ctx, rows, centre) if rows else ({c: [] for c in (c18.PEAK_COLS if centre == 'peak' else c18.TROUGH_COLS)}, c18.PEAK_COLS if centre == 'peak' else c18.TROUGH_COLS)
    if rows:
        ctx.assume(data[scols[-1]][-1] <= sig_len - 1)
    else:
        data.update({'feat_a': [], 'feat_b': [], 'cycle_id': []})
    if method == 'cycles':
        for c in c06.COLS:
            data[c] = [ctx.real('%s_%d' % (c, i), nan_allowed=True) for i in range(rows)]
    else:
        data['burst_fraction'] = [ctx.real('bf_%d' % i) for i in range(rows)]
    data['is_burst'] = [ctx.boolean('lab%d' % i) for i in range(rows)]
    return data, scols


def partition_obligations(ctx, dfs, data, scols, rows, ne, elen, obl, check_labels=None):
    """Every flattened row in exactly one epoch (the one containing its closing extremum), order,
    unchanged features, shifted samples."""
    next_c = scols[-1]
    seen = {}
    for e, d in enumerate(dfs):
        ids = [int(v) for v in ctx.tolist(d['cycle_id'])] if 'cycle_id' in d.columns else []
        obl.append((ids == sorted(ids), 'cycles keep their original order inside an epoch'))
        for pos, i in enumerate(ids):
            seen.setdefault(i, []).append((e, pos))
            obl.append((ctx.conj([data[next_c][i] >= e * elen, data[next_c][i] <= (e + 1) * elen]),
                        'a cycle is placed in the epoch containing its closing side extremum'))
            for c in data:
                cell = ctx.tolist(d[c])[pos]
                if c.startswith('sample_'):
                    obl.append((cell == data[c][i] - e * elen, 'sample indices shifted to be relative to the epoch start'))
                elif c == 'is_burst':
                    if check_labels is None:
                        obl.append((cell == data[c][i], 'burst labels unchanged by epoching'))
                elif c != 'cycle_id':
                    obl.append((ctx.eq(cell, data[c][i]), 'feature values unchanged by epoching'))
    obl.append((sorted(seen.keys()) == list(range(rows)) and all(len(v) == 1 for v in seen.values()),
                'every cycle of the flattened analysis appears in exactly one epoch'))
    return seen


def label_rule(ctx, data, ids, thr, method):
    """Threshold-and-run rule (C06 / C07) applied to the rows ``ids`` as one table."""
    k = len(ids)
    if method == 'cycles':
        cells = {c: [data[c][i] for i in ids] for c in c06.COLS}
        return c06.rule(ctx, cells, {c: thr[c + '_threshold'] for c in c06.COLS}, thr['min_n_cycles'], k)
    qual = [data['burst_fraction'][i] >= thr['burst_fraction_threshold'] for i in ids]
    left, right = [0] * k, [0] * k
    for j in range(k):
        left[j] = ctx.ite(qual[j], (left[j - 1] if j else 0) + 1, 0)
    for j in reversed(range(k)):
        right[j] = ctx.ite(qual[j], (right[j + 1] if j < k - 1 else 0) + 1, 0)
    return [ctx.conj([qual[j], left[j] + right[j] - 1 >= thr['min_n_cycles']]) for j in range(k)]


def run(ctx, cfg):
    np, pd = ctx.np, ctx.pd
    ne, rows, centre = cfg['epochs'], cfg['rows'], cfg['centre']
    du = ctx.mod('bycycle.utils.dataframes')
    elen = ctx.integer('epoch_len')
    ctx.assume(elen >= 1)
    sig_len = ne * elen
    if cfg.get('rem'):
        rem = ctx.integer('remainder')
        ctx.assume(rem >= 1)
        ctx.assume(rem <= elen - 1)
        sig_len = ne * elen + rem
        ne = ne + 1
    if cfg['fn'] == 'epoch_df':
        data, scols = flat_table(ctx, rows, centre, sig_len, 'cycles')
        df = pd.DataFrame({c: list(v) for c, v in data.items()})
        try:
            dfs = du.epoch_df(df, sig_len, elen)
        except Exception as e:
            ctx.fail(exc_label(e))
            return
        if not ctx.prove(isinstance(dfs, list) and len(dfs) == ne, 'one table per epoch'):
            return
        ctx.obs('ids', [[int(v) for v in ctx.tolist(d['cycle_id'])] for d in dfs])
        obl = []
        partition_obligations(ctx, dfs, data, scols, rows, ne, elen, obl)
        ctx.prove_all(obl)
        return
    # compute_features_2d(axis=None)
    gf = ctx.mod('bycycle.group.features')
    ff = ctx.mod('bycycle.features.features')
    method, kwk = cfg['method'], cfg['kw']
    el = cfg.get('el', 4)          # concrete array: el samples per epoch, cycle positions symbolic inside the flattened signal
    ctx.assume(elen == el)
    data, scols = flat_table(ctx, rows, centre, ne * el + 0 * elen, method)
    vals = [[ctx.real('x%d_%d' % (e, k)) for k in range(el)] for e in range(ne)]
    arr = np.array([list(r) for r in vals], dtype=float)
    if cfg.get('layout') == 'F':
        arr = np.asfortranarray(arr)
    elif cfg.get('layout') == 'T':
        arr = np.array([[vals[e][k] for e in range(ne)] for k in range(el)], dtype=float).T     # view of (samples, epochs)
    calls = []
    real_sig = inspect.signature(ff.compute_features)

    def rec(*a, **k):
        calls.append(dict(real_sig.bind(*a, **k).arguments))
        return pd.DataFrame({c: list(v) for c, v in data.items()})

    def thr_for(e):
        if method == 'cycles':
            t = {c + '_threshold': ctx.real('thr%d_%s' % (e, c)) for c in c06.COLS}
        else:
            t = {'burst_fraction_threshold': ctx.real('thr%d_bf' % e)}
        for v in t.values():
            ctx.assume(v >= 0)
            ctx.assume(v <= 1)
        m = ctx.integer('m%d' % e)
        ctx.assume(m >= 0)
        t['min_n_cycles'] = m
        return t
    if kwk == 'none':
        kwargs, thrs = None, None
        if method == 'amp':
            return
    elif kwk == 'dict':
        thrs = [thr_for(0)]
        kwargs = {'center_extrema': centre, 'burst_method': method, 'threshold_kwargs': dict(thrs[0])}
    else:
        thrs = [thr_for(e) for e in range(ne)]
        kwargs = [{'center_extrema': centre, 'burst_method': method, 'threshold_kwargs': dict(t)} for t in thrs]
    if kwk == 'none' and centre != 'peak':
        return
    if thrs is not None:
        # the flattened analysis labels its table with the FIRST option set (what compute_features does)
        data['is_burst'] = label_rule(ctx, data, list(range(rows)), thrs[0], method)
    saved = gf.compute_features
    gf.compute_features = rec
    try:
        if cfg.get('repeat'):
            gf.compute_features_2d(arr, 500.0, (8.0, 12.0), compute_features_kwargs=kwargs, axis=None)
            del calls[:]
        dfs = gf.compute_features_2d(arr, 500.0, (8.0, 12.0), compute_features_kwargs=kwargs, axis=None)
    except Exception as e:
        ctx.fail(exc_label(e))
        return
    finally:
        gf.compute_features = saved
    if not ctx.prove(len(calls) == 1 and isinstance(dfs, list) and len(dfs) == ne, 'one flattened analysis, one table per epoch'):
        return
    a = calls[0]
    flat = [v for r in vals for v in r]
    got = ctx.tolist(a['sig'])
    obl = [(len(got) == len(flat), 'the concatenated signal is analysed')]
    obl += [(ctx.eq(u, v), 'the concatenated signal is analysed (epochs in order)') for u, v in zip(got, flat)]
    obl.append((a.get('return_samples') is True and a.get('center_extrema') == (centre if kwargs is not None else 'peak'),
                'flattened analysis keeps sample columns and the requested centring'))
    if not ctx.prove_all(obl):
        return
    ctx.obs('ids', [[int(v) for v in ctx.tolist(d['cycle_id'])] for d in dfs])
    obl = []
    seen = partition_obligations(ctx, dfs, data, scols, rows, ne, el, obl, check_labels=(thrs if kwk == 'list' else None))
    if not ctx.prove_all(obl):
        return
    if kwk == 'list':
        # each epoch re-labelled with its own thresholds: the rule applied to that epoch's table
        obl = []
        for e, d in enumerate(dfs):
            ids = [int(v) for v in ctx.tolist(d['cycle_id'])]
            k = len(ids)
            lab = ctx.tolist(d['is_burst']) if k else []
            want = label_rule(ctx, data, ids, thrs[e], method)
            obl += [(lab[j] == want[j], 'with a per-epoch list each epoch is re-labelled with its own thresholds') for j in range(k)]
        ctx.prove_all(obl)
