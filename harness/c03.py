"""C03 -- find_zerox puts each flank midpoint at the half-height crossing.

Samples are unbounded reals (ties, plateaus, zeros, any offset/scale all inside one query);
the alternating extrema positions are integer solver variables concretised by forking, so
every alternating peak/trough placement on the array is visited.  No stub is involved."""
from engine.ctx import exc_label

FUNCTIONS = ['bycycle.cyclepoints.zerox.find_zerox', 'bycycle.cyclepoints.zerox._find_flank_midpoints',
             'bycycle.cyclepoints.zerox.find_flank_zerox']
BOUNDS = {'quick': 'signal length N <= 7, every real-valued signal, every alternating extrema sequence with 2..5 extrema; int16 / uint8 signals (every value of the type) with N <= 5',
          'thorough': 'signal length N <= 9, every real-valued signal, every alternating extrema sequence with 2..7 extrema'}
OUTSIDE = 'longer signals; IEEE rounding of the midpoint (a+b)/2 (reals are used); non-alternating inputs'
STUBS = []
ASSUMPTIONS = ['extrema strictly increasing and strictly alternating (what find_extrema delivers, C02)',
               'real arithmetic for (x_s + x_e)/2; numpy model validated by witness replay']


def configs(tier):
    out = []
    top_n, top_k = (7, 5) if tier == 'quick' else (9, 7)
    for n in range(2, top_n + 1):
        for k in range(2, min(n, top_k) + 1):
            for first in ('peak', 'trough'):
                out.append({'n': n, 'k': k, 'first': first})
    # recordings stored as machine integers (raw ADC counts): sums / differences of samples must not wrap around
    for dt in ('int16', 'uint8'):
        for n, k in (((3, 2), (5, 3)) if tier == 'quick' else ((3, 2), (4, 2), (5, 3), (6, 4))):
            for first in ('peak', 'trough'):
                out.append({'n': n, 'k': k, 'first': first, 'dtype': dt})
    return out


def cost(cfg):
    return 2.0 ** cfg['n'] * cfg['k']


def split(cfg, tier):
    return 32 if cfg["n"] >= 6 else None


def expected_midpoint(ctx, x, s, e, flank):
    """Reference from the statement.  Returns (value or None, lo, hi)."""
    seg = x[s:e + 1]
    n = len(seg)
    m = (seg[0] + seg[-1]) / 2
    allzero = ctx.conj([v == 0 for v in seg])
    inverted = (seg[0] > seg[-1]) if flank == 'rise' else (seg[0] < seg[-1])
    if ctx.truth(allzero) or ctx.truth(inverted):
        return s + (n // 2)
    cross = []
    for i in range(n - 1):
        if flank == 'rise':
            c = ctx.conj([seg[i] <= m, seg[i + 1] > m])
        else:
            c = ctx.conj([seg[i] > m, seg[i + 1] <= m])
        if ctx.truth(c):
            cross.append(i)
    if not cross:
        return None
    cnt = len(cross)
    med2 = cross[cnt // 2] * 2 if cnt % 2 else cross[cnt // 2 - 1] + cross[cnt // 2]
    return s + med2 // 2


def run(ctx, cfg):
    np = ctx.np
    n, k, first = cfg['n'], cfg['k'], cfg['first']
    zx = ctx.mod('bycycle.cyclepoints.zerox')
    if cfg.get('dtype'):
        x, sig = ctx.int_signal(['x%d' % i for i in range(n)], cfg['dtype'])
    else:
        x = [ctx.real('x%d' % i) for i in range(n)]
        sig = np.array(list(x), dtype=float)
    ps = [ctx.integer('p%d' % j) for j in range(k)]
    ctx.assume(ps[0] >= 0)
    for j in range(1, k):
        ctx.assume(ps[j] > ps[j - 1])
    ctx.assume(ps[-1] <= n - 1)
    pos = [ctx.toint(p) for p in ps]
    kinds = [first if j % 2 == 0 else ('trough' if first == 'peak' else 'peak') for j in range(k)]
    peaks = [p for p, kd in zip(pos, kinds) if kd == 'peak']
    troughs = [p for p, kd in zip(pos, kinds) if kd == 'trough']
    try:
        rises, decays = zx.find_zerox(sig, np.array(peaks, dtype=int), np.array(troughs, dtype=int))
    except Exception as e:
        ctx.fail(exc_label(e))
        return
    rises, decays = ctx.tolist(rises), ctx.tolist(decays)
    ctx.obs('rises', rises)
    ctx.obs('decays', decays)
    exp_r, exp_d = [], []
    for j in range(k - 1):
        s, e = pos[j], pos[j + 1]
        if kinds[j] == 'trough':
            exp_r.append((s, e))
        else:
            exp_d.append((s, e))
    if not ctx.prove(len(rises) == len(exp_r), 'one rise midpoint per trough-to-peak flank'):
        return
    if not ctx.prove(len(decays) == len(exp_d), 'one decay midpoint per peak-to-trough flank'):
        return
    obl = []
    for name, got, exp in (('rise', rises, exp_r), ('decay', decays, exp_d)):
        for idx, (s, e) in enumerate(exp):
            want = expected_midpoint(ctx, x, s, e, name)
            if want is None:
                obl.append((ctx.conj([got[idx] >= s, got[idx] <= e]),
                            '%s midpoint lies inside its flank (no half-height crossing)' % name))
            else:
                obl.append((got[idx] == want, '%s midpoint = sample before the half-height crossing '
                                              '(median of crossings / centre if inverted or zero)' % name))
    ctx.prove_all(obl)
    if not obl:
        ctx.reachable()
