"""C05 -- burst features equal their documented definitions.

volt_amp / volt_rise / volt_decay cells are unbounded reals of ANY sign (zero allowed, so 0/0 ->
NaN and x/0 -> -inf arise and the nanmin / clamping logic is exercised), periods are positive
integers, raw samples reals and cyclepoints integers (C01 invariant).  The four real feature
functions run over the pandas/numpy models; each output cell is proved equal to the reference
definition written from the statement, and to lie in [0, 1] when the flank voltages are > 0."""
from engine.ctx import exc_label

FUNCTIONS = ['bycycle.features.burst.compute_amp_fraction', 'bycycle.features.burst.compute_amp_consistency',
             'bycycle.features.burst.compute_period_consistency', 'bycycle.features.burst.compute_monotonicity',
             'bycycle.features.burst.compute_burst_features']
BOUNDS = {'quick': 'amp_fraction rows 1..6; amp/period consistency rows 1..5, both centrings, directions both/next/last; monotonicity N <= 7, 1..2 cycles (and int16 / uint8 signals, every value of the type, N = 4)',
          'thorough': 'amp_fraction rows 1..8; amp consistency rows 1..6, period consistency rows 1..7; monotonicity N <= 9, 1..3 cycles'}
OUTSIDE = 'longer tables; IEEE rounding of ratios and means; NaN/inf input cells'
STUBS = []
ASSUMPTIONS = ['periods are positive integers; cyclepoints satisfy the C01 ordering invariant',
               'pandas rank(method=average) model validated by witness replay on real pandas']


def configs(tier):
    q = tier == 'quick'
    out = []
    for r in range(1, (6 if q else 8) + 1):
        out.append({'fn': 'amp_fraction', 'rows': r})
    for r in range(1, (5 if q else 6) + 1):
        for centre in ('peak', 'trough'):
            for d in ('both', 'next', 'last'):
                out.append({'fn': 'amp_consistency', 'rows': r, 'centre': centre, 'dir': d})
    for r in range(1, (5 if q else 7) + 1):
        for d in ('both', 'next', 'last'):
            out.append({'fn': 'period_consistency', 'rows': r, 'dir': d})
    for d in ('bogus',):
        out.append({'fn': 'amp_consistency', 'rows': 3, 'centre': 'peak', 'dir': d})
        out.append({'fn': 'period_consistency', 'rows': 3, 'dir': d})
    for n in range(3, (7 if q else 9) + 1):
        for rows in range(1, (2 if q else 3) + 1):
            if 2 * rows + 1 > n:
                continue
            for centre in ('peak', 'trough'):
                out.append({'fn': 'monotonicity', 'n': n, 'rows': rows, 'centre': centre})
    # recordings stored as machine integers (raw ADC counts): sample differences must not wrap around
    for dt in ('int16', 'uint8'):
        for centre in ('peak', 'trough'):
            out.append({'fn': 'monotonicity', 'n': 4, 'rows': 1, 'centre': centre, 'dtype': dt})
            if not q:
                out.append({'fn': 'monotonicity', 'n': 6, 'rows': 2, 'centre': centre, 'dtype': dt})
    return out


def cost(cfg):
    if cfg['fn'] == 'amp_consistency':
        return 9.0 ** cfg['rows']
    if cfg['fn'] == 'monotonicity':
        return 3.0 ** cfg['n']
    return 2.0 ** cfg['rows']


def split(cfg, tier):
    return 40 if cost(cfg) >= 5000 else None


def ratio(ctx, a, b):
    """min(a,b)/max(a,b) with IEEE semantics for a zero denominator."""
    lo = ctx.ite(b < a, b, a)
    hi = ctx.ite(b > a, b, a)
    return ctx.np.float64(lo) / ctx.np.float64(hi) if ctx.mode == 'real' else lo / hi


def nan_min(ctx, vals):
    best = None
    for v in vals:
        if ctx.truth(ctx.isnan(v)):
            continue
        if best is None:
            best = v
        else:
            best = ctx.ite(v < best, v, best)
    return float('nan') if best is None else best


def run(ctx, cfg):
    np, pd = ctx.np, ctx.pd
    fb = ctx.mod('bycycle.features.burst')
    fn = cfg['fn']
    rows = cfg['rows']
    if fn == 'amp_fraction':
        amp = [ctx.real('amp%d' % i) for i in range(rows)]
        df = pd.DataFrame({'volt_amp': list(amp)})
        try:
            got = ctx.tolist(fb.compute_amp_fraction(df))
        except Exception as e:
            ctx.fail(exc_label(e))
            return
        ctx.obs('amp_fraction', got)
        if not ctx.prove(len(got) == rows, 'one value per cycle'):
            return
        obl = []
        for i in range(rows):
            less = sum([ctx.ite(amp[j] < amp[i], 1, 0) for j in range(rows)])
            equal = sum([ctx.ite(amp[j] == amp[i], 1, 0) for j in range(rows)])
            want2n = 2 * less + equal + 1          # 2 * average rank
            obl.append((ctx.eq(got[i] * (2 * rows), want2n), 'amp_fraction = average rank / number of cycles'))
            obl.append((ctx.conj([got[i] > 0, got[i] <= 1]), 'amp_fraction in [0, 1]'))
        ctx.prove_all(obl)
        return
    if fn == 'amp_consistency':
        centre, d = cfg['centre'], cfg['dir']
        rise = [ctx.real('rise%d' % i) for i in range(rows)]
        decay = [ctx.real('decay%d' % i) for i in range(rows)]
        cols = {'volt_rise': list(rise), 'volt_decay': list(decay)}
        cols['sample_peak' if centre == 'peak' else 'sample_trough'] = list(range(rows))
        df = pd.DataFrame(cols)
        try:
            got = ctx.tolist(fb.compute_amp_consistency(df, direction=d))
        except ValueError as e:
            if d == 'bogus':
                ctx.prove(True, 'invalid direction rejected')
            else:
                ctx.fail(exc_label(e))
            return
        except Exception as e:
            ctx.fail(exc_label(e))
            return
        if d == 'bogus':
            ctx.fail('invalid direction accepted')
            return
        ctx.obs('amp_consistency', got)
        if not ctx.prove(len(got) == rows, 'one value per cycle'):
            return
        obl = []
        for i in range(rows):
            if i == 0 or i == rows - 1:
                obl.append((ctx.isnan(got[i]), 'amp_consistency undefined (NaN) for first and last cycle'))
                continue
            cur = ratio(ctx, rise[i], decay[i])
            if centre == 'peak':
                last = ratio(ctx, rise[i], decay[i - 1])
                nxt = ratio(ctx, rise[i + 1], decay[i])
                involved = [rise[i], decay[i], decay[i - 1], rise[i + 1]]
            else:
                last = ratio(ctx, rise[i - 1], decay[i])
                nxt = ratio(ctx, rise[i], decay[i + 1])
                involved = [rise[i], decay[i], rise[i - 1], decay[i + 1]]
            pairs = {'both': [cur, nxt, last], 'next': [cur, nxt], 'last': [cur, last]}[d]
            allnan = all(ctx.truth(ctx.isnan(v)) for v in [cur, nxt, last])
            want = float('nan') if allnan else nan_min(ctx, pairs)
            if not ctx.truth(ctx.isnan(want)):
                want = ctx.ite(want < 0, 0.0, want)
            obl.append((ctx.eq(got[i], want), 'amp_consistency = smallest min/max ratio of the adjacent flank pairs, clamped at 0'))
            pos = ctx.conj([v > 0 for v in involved])
            inrange = ctx.conj([ctx.neg(ctx.isnan(got[i])), got[i] >= 0, got[i] <= 1])
            obl.append((ctx.disj([ctx.neg(pos), inrange]), 'amp_consistency in [0, 1] for positive flank voltages'))
        ctx.prove_all(obl)
        if not obl:
            ctx.reachable()
        return
    if fn == 'period_consistency':
        d = cfg['dir']
        per = [ctx.integer('per%d' % i) for i in range(rows)]
        for p in per:
            ctx.assume(p >= 1)
        df = pd.DataFrame({'period': list(per)})
        try:
            got = ctx.tolist(fb.compute_period_consistency(df, direction=d))
        except ValueError as e:
            if d == 'bogus':
                ctx.prove(True, 'invalid direction rejected')
            else:
                ctx.fail(exc_label(e))
            return
        except Exception as e:
            ctx.fail(exc_label(e))
            return
        if d == 'bogus':
            ctx.fail('invalid direction accepted')
            return
        ctx.obs('period_consistency', got)
        if not ctx.prove(len(got) == rows, 'one value per cycle'):
            return
        obl = []
        for i in range(rows):
            if i == 0 or i == rows - 1:
                obl.append((ctx.isnan(got[i]), 'period_consistency undefined (NaN) for first and last cycle'))
                continue
            last = ratio(ctx, per[i] * 1.0, per[i - 1] * 1.0)
            nxt = ratio(ctx, per[i + 1] * 1.0, per[i] * 1.0)
            want = {'both': ctx.ite(nxt < last, nxt, last), 'next': nxt, 'last': last}[d]
            obl.append((ctx.eq(got[i], want), 'period_consistency = smaller min/max period ratio with the neighbours'))
            obl.append((ctx.conj([got[i] > 0, got[i] <= 1]), 'period_consistency in [0, 1]'))
        ctx.prove_all(obl)
        if not obl:
            ctx.reachable()
        return
    if fn == 'monotonicity':
        n, centre = cfg['n'], cfg['centre']
        if cfg.get('dtype'):
            x, sig = ctx.int_signal(['x%d' % i for i in range(n)], cfg['dtype'])
        else:
            x = [ctx.real('x%d' % i) for i in range(n)]
            sig = np.array(list(x), dtype=float)
        k = 2 * rows + 1
        ps = [ctx.integer('p%d' % j) for j in range(k)]
        ctx.assume(ps[0] >= 0)
        for j in range(1, k):
            ctx.assume(ps[j] > ps[j - 1])
        ctx.assume(ps[-1] <= n - 1)
        pos = [ctx.toint(p) for p in ps]
        side, cen = ('trough', 'peak') if centre == 'peak' else ('peak', 'trough')
        cols = {'sample_last_' + side: [pos[2 * r] for r in range(rows)],
                'sample_' + cen: [pos[2 * r + 1] for r in range(rows)],
                'sample_next_' + side: [pos[2 * r + 2] for r in range(rows)]}
        df = pd.DataFrame(cols)
        try:
            got = ctx.tolist(fb.compute_monotonicity(df, sig))
        except Exception as e:
            ctx.fail(exc_label(e))
            return
        ctx.obs('monotonicity', got)
        if not ctx.prove(len(got) == rows, 'one value per cycle'):
            return
        obl = []
        for r in range(rows):
            a, c, b = pos[2 * r], pos[2 * r + 1], pos[2 * r + 2]
            first_up = centre == 'peak'       # peak-centred: rise then decay
            seg1 = list(range(a, c))
            seg2 = list(range(c, b))
            up, down = (seg1, seg2) if first_up else (seg2, seg1)
            n_up = sum([ctx.ite(x[i + 1] > x[i], 1, 0) for i in up])
            n_down = sum([ctx.ite(x[i + 1] < x[i], 1, 0) for i in down])
            # mean of the two fractions, cleared of denominators
            lhs = got[r] * (2 * len(up) * len(down))
            rhs = n_up * len(down) + n_down * len(up)
            obl.append((ctx.eq(lhs, rhs), 'monotonicity = mean of strictly-rising fraction of the rise and strictly-falling fraction of the decay'))
            obl.append((ctx.conj([got[r] >= 0, got[r] <= 1]), 'monotonicity in [0, 1]'))
        ctx.prove_all(obl)
        return
    raise RuntimeError('unknown fn')
