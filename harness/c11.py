"""C11 -- compute_features_2d(axis=0) / BycycleGroup.fit (2-D) return, at position i, the analysis
of row i alone with the options given for row i -- whatever n_jobs, the order in which workers
finish, or the progress option.

compute_features is cut to a recorder (its result is a token carrying its arguments: equal
arguments <=> equal analysis, which is C15), multiprocessing.Pool is a model whose tasks complete
in an ADVERSARIAL order chosen by the solver (imap / map yield in submission order, imap_unordered
in completion order, processes < 1 raises), cpu_count() is an arbitrary positive integer.  All
samples, n_jobs, the completion permutation and the values inside the option dicts are solver
variables."""
import inspect
from engine.ctx import exc_label

FUNCTIONS = ['bycycle.group.features.compute_features_2d', 'bycycle.group.features._proxy_2d',
             'bycycle.group.utils.check_kwargs_shape', 'bycycle.group.utils.progress_bar',
             'bycycle.objs.fit.BycycleGroup.fit']
BOUNDS = {'quick': '1..3 rows x 3 samples, options None / dict / per-row list, progress None / tqdm, every n_jobs >= 1 or -1, every completion order',
          'thorough': '1..7 rows (all 5040 completion orders)'}
OUTSIDE = 'real OS-level scheduling (the stdlib Pool ordering contract is trusted); more rows'
STUBS = ['compute_features -> token recording its arguments', 'multiprocessing.Pool -> PoolModel with solver-chosen completion order', 'cpu_count -> arbitrary positive integer', 'tqdm.tqdm -> pass-through iterator']
ASSUMPTIONS = ['equal arguments => equal analysis (C15)']


def configs(tier):
    top = 3 if tier == 'quick' else 7
    out = []
    for rows in range(1, top + 1):
        for kw in ('none', 'dict', 'list'):
            for progress in (None, 'tqdm'):
                for api in ('func', 'group'):
                    if api == 'group' and (kw == 'list' or progress == 'tqdm'):
                        continue
                    out.append({'rows': rows, 'kw': kw, 'progress': progress, 'api': api})
    # integer-typed recordings (raw ADC counts) must reach the per-signal analysis unchanged
    for api in ('func', 'group'):
        out.append({'rows': 2, 'kw': 'dict' if api == 'func' else 'none', 'progress': None, 'api': api, 'dtype': 'int'})
    return out


def cost(cfg):
    return [1, 1, 2, 6, 24, 120, 720, 5040][cfg['rows']]


def install_pool(ctx, tag='perm'):
    """completion order = a solver-chosen permutation."""
    def order(n):
        vs = [ctx.integer('%s%d_%d' % (tag, n, i)) for i in range(n)]
        for i, v in enumerate(vs):
            ctx.assume(v >= 0)
            ctx.assume(v <= n - 1)
            for w in vs[:i]:
                ctx.assume(ctx.neg(v == w))
        return [ctx.toint(v) for v in vs]
    ctx.env.CUR.pool_order = order


def recorder(ctx, real_fn, calls):
    sig = inspect.signature(real_fn)
    pd = ctx.pd

    def rec(*a, **k):
        args = dict(sig.bind(*a, **k).arguments)
        kw = args.pop('kwargs', None)
        if kw:
            args.update(kw)
        tok = pd.DataFrame({'call': [len(calls)]})
        calls.append((tok, args))
        return tok
    return rec


def args_of(calls, tok):
    for t, a in calls:
        if t is tok:
            return a
    return None


def row_option(ctx, i, tag=''):
    t = ctx.real('%sopt_thr%d' % (tag, i))
    if i % 2 == 1:
        # every other row leaves the centring (and method) to the library defaults
        return {'threshold_kwargs': {'amp_fraction_threshold': t, 'min_n_cycles': 2}, 'return_samples': False}, t
    return {'center_extrema': 'trough', 'burst_method': 'cycles',
            'threshold_kwargs': {'amp_fraction_threshold': t, 'min_n_cycles': 2},
            'return_samples': (i % 2 == 0)}, t


def check_token(ctx, calls, tok, row, opt, rs, obl, where, dtype_of=None, dtype_ref=None):
    a = args_of(calls, tok)
    if a is None:
        obl.append((False, '%s is not an analysis produced for this call' % where))
        return
    vals = ctx.tolist(a['sig'])
    obl.append((len(vals) == len(row), '%s analyses one row' % where))
    if dtype_of is not None:
        obl.append((dtype_of(a['sig']) == dtype_of(dtype_ref), '%s analyses the signal with the dtype it was given in' % where))
    obl += [(ctx.eq(u, v), '%s is the analysis of the signal at that position' % where) for u, v in zip(vals, row)]
    obl.append((a.get('fs') == 500.0 and tuple(a.get('f_range')) == (8.0, 12.0), '%s analysed with the caller\'s fs / f_range' % where))
    obl.append((a.get('return_samples') is rs, '%s: return_samples is the function argument (value inside the options ignored)' % where))
    if opt is None:
        obl.append((a.get('center_extrema', 'peak') == 'peak' and a.get('threshold_kwargs') is None, '%s analysed with default options' % where))
    else:
        o, t = opt
        tk = a.get('threshold_kwargs') or {}
        obl.append((a.get('center_extrema', 'peak') == o.get('center_extrema', 'peak') and a.get('burst_method', 'cycles') == o.get('burst_method', 'cycles'),
                    '%s analysed with the options given for that position (library defaults where a row gives none)' % where))
        obl.append((ctx.eq(tk.get('amp_fraction_threshold', float('nan')), t) if 'amp_fraction_threshold' in tk else False,
                    '%s analysed with the thresholds given for that position' % where))


def run(ctx, cfg):
    np = ctx.np
    rows, kwk, progress, api = cfg['rows'], cfg['kw'], cfg['progress'], cfg['api']
    gf = ctx.mod('bycycle.group.features')
    ff = ctx.mod('bycycle.features.features')
    fit = ctx.mod('bycycle.objs.fit')
    cols = 3
    is_int = cfg.get('dtype') == 'int'
    vals = [[(ctx.integer if is_int else ctx.real)('x%d_%d' % (i, j)) for j in range(cols)] for i in range(rows)]
    arr = np.array([list(r) for r in vals], dtype=int if is_int else float)
    kind_of = lambda a: np.asarray(a).dtype      # noqa: E731
    n_jobs = ctx.integer('n_jobs')
    ctx.assume(ctx.disj([n_jobs >= 1, n_jobs == -1]))
    cpu = ctx.integer('cpu_count')
    ctx.assume(cpu >= 1)
    ctx.env.CUR.cpu_count = cpu
    install_pool(ctx)
    rs = ctx.boolean('return_samples')
    rs = ctx.truth(rs)
    calls = []
    saved = gf.compute_features
    gf.compute_features = recorder(ctx, ff.compute_features, calls)
    opts = None
    if kwk == 'dict':
        opts = [row_option(ctx, 0)] * rows
        kwargs = opts[0][0]
    elif kwk == 'list':
        opts = [row_option(ctx, i) for i in range(rows)]
        kwargs = [o for o, _ in opts]
    else:
        kwargs = None
    try:
        if api == 'func':
            res = gf.compute_features_2d(arr, 500.0, (8.0, 12.0), compute_features_kwargs=kwargs, axis=0,
                                         return_samples=rs, n_jobs=n_jobs, progress=progress)
        else:
            thr_t = ctx.real('g_thr')
            bg = fit.BycycleGroup(center_extrema='trough', burst_method='cycles',
                                  thresholds={'amp_fraction_threshold': thr_t, 'min_n_cycles': 2}, return_samples=rs)
            bg.fit(arr, 500.0, (8.0, 12.0), axis=0, n_jobs=n_jobs, progress=progress)
            res = bg.df_features
            opts = [({'center_extrema': 'trough', 'burst_method': 'cycles'}, thr_t)] * rows
    except Exception as e:
        ctx.fail(exc_label(e))
        return
    finally:
        gf.compute_features = saved
    if not ctx.prove(isinstance(res, list) and len(res) == rows, 'one table per row'):
        return
    ctx.obs('order', [args_of(calls, t) is not None for t in res])
    obl = []
    for i in range(rows):
        check_token(ctx, calls, res[i], vals[i], None if opts is None else opts[i], rs, obl, 'entry %d' % i,
                    dtype_of=kind_of, dtype_ref=arr)
    if api == 'group':
        obl.append((len(bg.models) == rows, 'one model per row'))
        for i in range(min(rows, len(bg.models))):
            obl.append((bg.models[i].df_features is res[i], 'models mirror df_features position by position'))
            obl += [(ctx.eq(u, v), 'models hold the signal of their position') for u, v in zip(ctx.tolist(bg.models[i].sig), vals[i])]
            obl.append((kind_of(bg.models[i].sig) == kind_of(arr), 'models hold the signal with its original dtype'))
    ctx.prove_all(obl)
