"""C07 -- amplitude burst labels follow the dual-threshold rule.

compute_features(burst_method='amp') runs for real (compute_burst_features, compute_burst_fraction,
detect_bursts_amp, check_min_burst_cycles) on top of a *cut* compute_shape_features that returns an
arbitrary cycle table obeying the C01 invariant (side-extrema positions are solver variables), so
multi-row tables are reached.  The sample-wise detector is a stub returning an arbitrary boolean
mask; burst_fraction_threshold and both min_n_cycles values are solver variables."""
from engine.ctx import exc_label
from harness import pipe

FUNCTIONS = ['bycycle.features.features.compute_features', 'bycycle.features.burst.compute_burst_features',
             'bycycle.features.burst.compute_burst_fraction', 'bycycle.burst.amp.detect_bursts_amp',
             'bycycle.burst.utils.check_min_burst_cycles']
BOUNDS = {'quick': '1..3 cycles on N <= 9 samples (every placement of side extrema >= 2 apart), both centrings, min_n_cycles via thresholds / burst options / both / neither, amp_threshes given or default',
          'thorough': '1..4 cycles on N <= 12 samples'}
OUTSIDE = 'longer tables; min_burst_duration given (outside the statement); the numerics of the real dual-threshold detector'
STUBS = ['detect_bursts_dual_threshold -> arbitrary boolean mask of len(sig), arguments recorded',
         'compute_shape_features -> arbitrary table under the C01 invariant (cut; C01/C04 prove it)']
ASSUMPTIONS = ['C01 postcondition for the cycle table; burst_fraction_threshold in [0,1]; min_n_cycles >= 0']


def configs(tier):
    q = tier == 'quick'
    out = []
    for rows, ns in ((1, [3, 5]), (2, [5, 7]), (3, [7, 9] if q else [7, 9, 10]), (4, [] if q else [9, 12])):
        for n in ns:
            for centre in ('peak', 'trough'):
                for src in ('thr', 'burst', 'both', 'none'):
                    if src in ('both', 'none') and centre == 'trough' and q:
                        continue
                    out.append({'rows': rows, 'n': n, 'centre': centre, 'm_src': src, 'amp': src == 'burst'})
    # a given minimum duration (0 included) replaces the cycle count in the sample-wise detector
    for dur in ('zero', 'sym'):
        out.append({'rows': 2, 'n': 5, 'centre': 'peak', 'm_src': 'thr', 'amp': False, 'dur': dur})
    # the same burst options (with a nested filter_kwargs dict) used for two analyses with different min_n_cycles
    for src in ('thr', 'burst'):
        out.append({'rows': 2, 'n': 5, 'centre': 'peak', 'm_src': src, 'amp': False, 'reuse': True})
    # no thresholds given at all: the documented defaults (burst_fraction_threshold 1, three cycles)
    out.append({'rows': 3, 'n': 7, 'centre': 'peak', 'm_src': 'none', 'amp': False, 'nothr': True})
    # five cycles: a long run followed by a short one
    out.append({'rows': 5, 'n': 11, 'centre': 'peak', 'm_src': 'thr', 'amp': False})
    if not q:
        out.append({'rows': 5, 'n': 12, 'centre': 'trough', 'm_src': 'burst', 'amp': False})
    return out


def cost(cfg):
    return 4.0 ** cfg['rows'] * cfg['n'] ** 2


def split(cfg, tier):
    return 40 if cost(cfg) > 6000 or cfg['rows'] >= 5 else None


def run(ctx, cfg):
    np, pd = ctx.np, ctx.pd
    ff = ctx.mod('bycycle.features.features')
    rows, n, centre, src = cfg['rows'], cfg['n'], cfg['centre'], cfg['m_src']
    x = [ctx.real('x%d' % i) for i in range(n)]
    sig = np.array(list(x), dtype=float)
    st = pipe.Stubs(ctx, 0)
    # side extrema s_0 < s_1 < ... (>= 2 apart), centre extrema in between
    ss = [ctx.integer('s%d' % j) for j in range(rows + 1)]
    ctx.assume(ss[0] >= 0)
    for j in range(1, rows + 1):
        ctx.assume(ss[j] >= ss[j - 1] + 2)
    ctx.assume(ss[-1] <= n - 1)
    side = [ctx.toint(v) for v in ss]
    names = pipe.sample_cols(centre)
    table = {names[0]: side[:-1], names[1]: side[:-1], names[2]: side[:-1],
             names[3]: [s + 1 for s in side[:-1]], names[4]: [s + 1 for s in side[:-1]], names[5]: side[1:],
             'volt_amp': [ctx.real('va%d' % i) for i in range(rows)]}
    thr = ctx.real('thr')
    ctx.assume(thr >= 0)
    ctx.assume(thr <= 1)
    m_t, m_b = ctx.integer('m_t'), ctx.integer('m_b')
    ctx.assume(m_t >= 0)
    ctx.assume(m_b >= 0)
    thresholds = {'burst_fraction_threshold': thr}
    if cfg.get('nothr'):
        thr = 1
    burst_kwargs = {}
    if src in ('thr', 'both'):
        thresholds['min_n_cycles'] = m_t
    if src in ('burst', 'both'):
        burst_kwargs['min_n_cycles'] = m_b
    if cfg['amp']:
        burst_kwargs['amp_threshes'] = (0.5, 1.5)
    dur = None
    if cfg.get('dur'):
        dur = 0.0 if cfg['dur'] == 'zero' else ctx.real('min_burst_duration')
        if cfg['dur'] == 'sym':
            ctx.assume(dur >= 0)
        burst_kwargs['min_burst_duration'] = dur
    m_eff = m_b if src in ('burst', 'both') else (m_t if src == 'thr' else 3)
    saved = ff.compute_shape_features
    ff.compute_shape_features = lambda s, fs, fr, center_extrema='peak', find_extrema_kwargs=None: \
        pd.DataFrame({c: list(v) for c, v in table.items()})
    n_calls = 1
    bk_arg = dict(burst_kwargs) if burst_kwargs or src != 'none' else None
    try:
        if cfg.get('reuse'):
            # an earlier analysis with the same option objects and another minimum-cycle count
            m_0 = ctx.integer('m_0')
            ctx.assume(m_0 >= 0)
            fk = {'n_cycles': 4, 'avg_type': 'mean', 'magnitude_type': 'power'}
            bk_arg = dict(burst_kwargs)
            bk_arg['filter_kwargs'] = fk
            first_bk = bk_arg
            if src == 'burst':
                first_bk = dict(bk_arg)           # shares the nested filter_kwargs dict
                first_bk['min_n_cycles'] = m_0
            first_thr = dict(thresholds)
            if src == 'thr':
                first_thr['min_n_cycles'] = m_0
            ff.compute_features(sig, 500.0, (8.0, 12.0), center_extrema=centre, burst_method='amp',
                                burst_kwargs=first_bk, threshold_kwargs=first_thr)
            n_calls = 2
        df = ff.compute_features(sig, 500.0, (8.0, 12.0), center_extrema=centre, burst_method='amp',
                                 burst_kwargs=bk_arg, threshold_kwargs=None if cfg.get('nothr') else dict(thresholds))
    except Exception as e:
        ctx.fail(exc_label(e))
        return
    finally:
        ff.compute_shape_features = saved
    if not ctx.prove(len(st.dual) == n_calls, 'the sample-wise detector is run exactly once per analysis'):
        return
    call = st.dual[-1]
    want_kw = {'n_cycles': 4, 'avg_type': 'mean', 'magnitude_type': 'power'} if cfg.get('reuse') else {}
    ctx.prove(call['kw'] == want_kw, 'detector run with exactly the given filter / detector options (got %r)' % (call['kw'],))
    mask = call['out']
    want_amp = (0.5, 1.5) if cfg['amp'] else (1, 2)
    ctx.prove_all([
        (len(call['sig']) == n, 'detector run on the analysed signal'),
        (ctx.conj([ctx.eq(a, b) for a, b in zip(call['sig'], x)]), 'detector run on the caller\'s signal'),
        (call['fs'] == 500.0 and tuple(call['f_range']) == (8.0, 12.0), 'detector run with the caller\'s fs and band'),
        (tuple(call['dual_thresh']) == want_amp, 'detector run with the given (default (1, 2)) amplitude thresholds'),
        ((call['min_burst_duration'] is None) if dur is None else ctx.eq(call['min_burst_duration'], dur)
         if call['min_burst_duration'] is not None else False, 'the given minimum duration (none unless given) reaches the detector'),
        ((call['min_n_cycles'] == m_eff) if dur is None else (call['min_n_cycles'] is None),
         'detector uses the burst options\' min_n_cycles, else the thresholds\', else 3 (none when a minimum duration is given)'),
    ])
    cols = pipe.table_cols(ctx, df)
    if not ctx.prove('burst_fraction' in cols and 'is_burst' in cols and len(df) == rows, 'burst_fraction and is_burst per cycle'):
        return
    frac, lab = cols['burst_fraction'], cols['is_burst']
    ctx.obs('burst_fraction', frac)
    ctx.obs('is_burst', lab)
    obl = []
    qual = []
    for i in range(rows):
        a, b = side[i], side[i + 1]
        cnt = sum([ctx.ite(mask[j], 1, 0) for j in range(a, b + 1)])
        obl.append((ctx.eq(frac[i] * (b - a + 1), cnt), 'burst_fraction = fraction of samples from last to next side extremum (inclusive) marked bursting'))
        qual.append(cnt >= thr * (b - a + 1))
    left, right = [0] * rows, [0] * rows
    for i in range(rows):
        left[i] = ctx.ite(qual[i], (left[i - 1] if i else 0) + 1, 0)
    for i in reversed(range(rows)):
        right[i] = ctx.ite(qual[i], (right[i + 1] if i < rows - 1 else 0) + 1, 0)
    for i in range(rows):
        want = ctx.conj([qual[i], left[i] + right[i] - 1 >= m_eff])
        obl.append((lab[i] == want, 'is_burst <=> run of >= min_n_cycles cycles with burst_fraction >= threshold (same min_n_cycles as the detector)'))
    if not ctx.prove_all(obl):
        return
    # raising burst_fraction_threshold on the fixed table never adds a label
    thr2 = ctx.real('thr2')
    ctx.assume(thr2 >= thr)
    ctx.assume(thr2 <= 1)
    ba = ctx.mod('bycycle.burst.amp')
    kw = {'burst_fraction_threshold': thr2}
    if src != 'none':
        kw['min_n_cycles'] = m_eff
    try:
        df2 = ba.detect_bursts_amp(pd.DataFrame({'burst_fraction': list(frac)}), **kw)
    except Exception as e:
        ctx.fail(exc_label(e))
        return
    lab2 = ctx.tolist(df2['is_burst'])
    ctx.prove_all([(ctx.disj([ctx.neg(lab2[i]), lab[i]]), 'raising burst_fraction_threshold never adds a burst label')
                   for i in range(rows)])
