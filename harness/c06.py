"""C06 -- consistency burst labels follow the threshold-and-run rule.

The four feature columns (reals, NaN allowed in any cell), the four thresholds in [0,1] and
min_n_cycles (unbounded integer >= 0) are solver variables.  The real detect_bursts_cycles /
check_min_burst_cycles run over the pandas/numpy models; the oracle is
  is_burst[i] <=> qualifies(i) /\\ runlen(i) >= min_n_cycles,
  qualifies(i) = interior /\\ all four features strictly above threshold (NaN never),
and a second run with pointwise larger thresholds / min_n_cycles proves labels' => labels."""
from engine.ctx import exc_label

FUNCTIONS = ['bycycle.burst.cycle.detect_bursts_cycles', 'bycycle.burst.utils.check_min_burst_cycles']
BOUNDS = {'quick': 'tables of 1..7 cycles; every real/NaN feature value, every threshold vector in [0,1]^4, every integer min_n_cycles >= 0',
          'thorough': 'tables of 1..10 cycles; otherwise as quick'}
OUTSIDE = 'longer tables; +-inf feature values'
STUBS = []
ASSUMPTIONS = ['pandas model (column get/set, Series compare and &, to_numpy read-only) validated by witness replay on real pandas 3']
COLS = ['amp_fraction', 'amp_consistency', 'period_consistency', 'monotonicity']


def configs(tier):
    top = 7 if tier == 'quick' else 10
    out = [{'rows': r} for r in range(1, top + 1)]
    # the same rule when the table does not carry the default 0..n-1 index (a slice of a longer table)
    out += [{'rows': r, 'index': 'shifted'} for r in (3, 5)]
    # ... and when it is reached through compute_features: the caller's thresholds are the ones applied,
    # whatever the (amplitude-method) burst options contain
    out += [{'rows': r, 'route': bk} for r in (3, 4) for bk in ('none', 'burst_m')]
    # ... and when no thresholds are given at all: the documented defaults (0, .5, .5, .8; three cycles)
    out += [{'rows': r, 'route': 'defaults'} for r in (4, 5)]
    return out


def cost(cfg):
    return 3.0 ** cfg['rows']


def split(cfg, tier):
    return 40 if cfg['rows'] >= 6 else None


def make_table(ctx, rows, tag=''):
    cells = {c: [ctx.real('%s%s_%d' % (tag, c, i), nan_allowed=True) for i in range(rows)] for c in COLS}
    return cells


def rule(ctx, cells, thr, m, rows):
    """Reference labels from the statement."""
    qual = []
    for i in range(rows):
        if i == 0 or i == rows - 1:
            qual.append(False)
        else:
            qual.append(ctx.conj([cells[c][i] > thr[c] for c in COLS]))
    left, right = [0] * rows, [0] * rows
    for i in range(rows):
        left[i] = ctx.ite(qual[i], (left[i - 1] if i else 0) + 1, 0)
    for i in reversed(range(rows)):
        right[i] = ctx.ite(qual[i], (right[i + 1] if i < rows - 1 else 0) + 1, 0)
    return [ctx.conj([qual[i], left[i] + right[i] - 1 >= m]) for i in range(rows)]


def run(ctx, cfg):
    pd = ctx.pd
    rows = cfg['rows']
    bc = ctx.mod('bycycle.burst.cycle')
    cells = make_table(ctx, rows)
    thr = {c: ctx.real('thr_' + c) for c in COLS}
    for c in COLS:
        ctx.assume(thr[c] >= 0)
        ctx.assume(thr[c] <= 1)
    m = ctx.integer('m')
    ctx.assume(m >= 0)
    kw = {c + '_threshold': thr[c] for c in COLS}
    df = pd.DataFrame({c: list(cells[c]) for c in COLS})
    if cfg.get('index') == 'shifted':
        big = pd.DataFrame({c: [0.0, 0.0] + list(cells[c]) for c in COLS})
        df = big.iloc[range(2, rows + 2)]          # index labels 2 .. rows+1
    try:
        if cfg.get('route'):
            ff = ctx.mod('bycycle.features.features')
            saved = (ff.compute_shape_features, ff.compute_burst_features)
            shape_df = pd.DataFrame({'volt_amp': [1.0] * rows, 'sample_peak': list(range(rows))})
            ff.compute_shape_features = lambda *a, **k: shape_df.copy()
            ff.compute_burst_features = lambda *a, **k: pd.DataFrame({c: list(cells[c]) for c in COLS})
            bk = None
            if cfg['route'] == 'burst_m':
                mb = ctx.integer('m_burst_options')
                ctx.assume(mb >= 0)
                bk = {'min_n_cycles': mb}
            tk = dict(kw)
            tk['min_n_cycles'] = m
            if cfg['route'] == 'defaults':
                tk = None
                thr = {'amp_fraction': 0.0, 'amp_consistency': 0.5, 'period_consistency': 0.5, 'monotonicity': 0.8}
                m = 3
            try:
                out = ff.compute_features(ctx.np.zeros(4), 500.0, (8.0, 12.0), burst_method='cycles', burst_kwargs=bk,
                                          threshold_kwargs=tk)
            finally:
                ff.compute_shape_features, ff.compute_burst_features = saved
        else:
            out = bc.detect_bursts_cycles(df, min_n_cycles=m, **kw)
    except Exception as e:
        ctx.fail(exc_label(e))
        return
    try:
        got = ctx.tolist(out['is_burst'])
    except Exception as e:
        ctx.fail('no is_burst column: ' + exc_label(e))
        return
    ctx.obs('is_burst', got)
    if not ctx.prove(len(got) == rows, 'one label per cycle'):
        return
    want = rule(ctx, cells, thr, m, rows)
    ctx.prove_all([(got[i] == want[i], 'is_burst[%d] <=> qualifies and run >= min_n_cycles' % i)
                   for i in range(rows)])
    # feature columns are passed through unchanged
    obl = []
    for c in COLS:
        col = ctx.tolist(out[c])
        obl += [(ctx.eq(col[i], cells[c][i]), 'feature column %s unchanged' % c) for i in range(rows)]
    ctx.prove_all(obl)
    # monotonicity: raising any threshold or min_n_cycles never adds a label
    thr2 = {c: ctx.real('thr2_' + c) for c in COLS}
    for c in COLS:
        ctx.assume(thr2[c] >= thr[c])
        ctx.assume(thr2[c] <= 1)
    m2 = ctx.integer('m2')
    ctx.assume(m2 >= m)
    df2 = pd.DataFrame({c: list(cells[c]) for c in COLS})
    try:
        out2 = bc.detect_bursts_cycles(df2, min_n_cycles=m2, **{c + '_threshold': thr2[c] for c in COLS})
    except Exception as e:
        ctx.fail(exc_label(e))
        return
    got2 = ctx.tolist(out2['is_burst'])
    ctx.obs('is_burst_raised', got2)
    ctx.prove_all([(ctx.disj([ctx.neg(got2[i]), got[i]]), 'raising thresholds / min_n_cycles never adds a burst label')
                   for i in range(min(rows, len(got2)))])
