"""C16 -- recompute_edges edits only the consistency cells of the cycles immediately outside
each burst (one-sided value looking into the burst), leaves the input table and every other
cell untouched, and re-labels with the threshold-and-run rule.

The table (volt_rise / volt_decay of any sign, positive integer periods, the four feature
columns with NaN-able cells), both threshold vectors and both min_n_cycles are solver variables.
The input labels are produced by the real detect_bursts_cycles (first run), then the real
recompute_edges / recompute_edge / compute_*_consistency run on the same path."""
from engine.ctx import exc_label
from harness import c05, c06

FUNCTIONS = ['bycycle.burst.utils.recompute_edges', 'bycycle.burst.utils.recompute_edge',
             'bycycle.features.burst.compute_amp_consistency', 'bycycle.features.burst.compute_period_consistency',
             'bycycle.burst.cycle.detect_bursts_cycles']
BOUNDS = {'quick': 'tables of 3..5 cycles, both centrings; all cell values, thresholds in [0,1], min_n_cycles >= 0',
          'thorough': 'tables of 3..7 cycles, both centrings'}
OUTSIDE = 'longer tables; +-inf cells; tables whose first/last consistency cells are not NaN (never produced by compute_burst_features)'
STUBS = []
ASSUMPTIONS = ['input labels come from detect_bursts_cycles on the same table (first and last cycle never burst)',
               'first/last amp_consistency and period_consistency cells are NaN, as compute_burst_features produces them',
               'RangeIndex table (what compute_features returns)']
COLS = c06.COLS


def configs(tier):
    # cut=False: the real compute_*_consistency run inside recompute_edge (nonlinear ratios);
    # cut=True : they are replaced by a recorder returning fresh values (what they compute is C05),
    #            which keeps every obligation linear and lets the table grow.
    q = tier == 'quick'
    out = [{'rows': r, 'centre': c, 'cut': False} for r in range(3, (4 if q else 5) + 1) for c in ('peak', 'trough')]
    out += [{'rows': r, 'centre': c, 'cut': True} for r in range(3, (6 if q else 8) + 1) for c in ('peak', 'trough')]
    # the object API: Bycycle.recompute_edges(r) = the functional recomputation with every *_threshold lowered by r
    out += [{'rows': r, 'centre': 'peak', 'cut': True, 'api': 'obj'} for r in (3, 4)]
    return out


def cost(cfg):
    return (8.0 if not cfg['cut'] else 3.0) ** cfg['rows']


def split(cfg, tier):
    return 48 if cost(cfg) >= 700 else None


def run(ctx, cfg):
    pd = ctx.pd
    rows, centre = cfg['rows'], cfg['centre']
    bu = ctx.mod('bycycle.burst.utils')
    bc = ctx.mod('bycycle.burst.cycle')
    nan = float('nan')
    rise = [ctx.real('rise%d' % i) for i in range(rows)]
    decay = [ctx.real('decay%d' % i) for i in range(rows)]
    per = [ctx.integer('per%d' % i) for i in range(rows)]
    for p in per:
        ctx.assume(p >= 1)
    cells = {}
    for c in COLS:
        cells[c] = [ctx.real('%s_%d' % (c, i), nan_allowed=True) for i in range(rows)]
    for c in ('amp_consistency', 'period_consistency'):
        cells[c][0] = nan
        cells[c][-1] = nan
    thr0 = {c: ctx.real('thr0_' + c) for c in COLS}
    thr1 = {c: ctx.real('thr1_' + c) for c in COLS}
    for t in (thr0, thr1):
        for c in COLS:
            ctx.assume(t[c] >= 0)
            ctx.assume(t[c] <= 1)
    m0, m1 = ctx.integer('m0'), ctx.integer('m1')
    ctx.assume(m0 >= 0)
    ctx.assume(m1 >= 0)
    same_thr = ctx.conj([thr0[c] == thr1[c] for c in COLS] + [m0 == m1])
    data = {c: list(cells[c]) for c in COLS}
    data.update({'volt_rise': list(rise), 'volt_decay': list(decay), 'period': list(per)})
    data['sample_peak' if centre == 'peak' else 'sample_trough'] = [10 * i + 5 for i in range(rows)]
    df = pd.DataFrame(data)
    try:
        df = bc.detect_bursts_cycles(df, min_n_cycles=m0, **{c + '_threshold': thr0[c] for c in COLS})
        old = [ctx.truth(b) for b in ctx.tolist(df['is_burst'])]
    except Exception as e:
        ctx.fail('detect_bursts_cycles: ' + exc_label(e))
        return
    snapshot = {c: ctx.tolist(df[c]) for c in df.columns}
    kw1 = {c + '_threshold': thr1[c] for c in COLS}
    kw1['min_n_cycles'] = m1
    fb = ctx.mod('bycycle.features.burst')
    calls = []
    idcol = 'sample_peak' if centre == 'peak' else 'sample_trough'
    saved = (fb.compute_amp_consistency, fb.compute_period_consistency)
    if cfg['cut']:
        def recorder(kind):
            def fake(edge, direction='both'):
                ids = [(int(v) - 5) // 10 for v in ctx.tolist(edge[idcol])]
                k = len(calls)
                vals = [ctx.real('%s%d_%d' % (kind, k, j), nan_allowed=True) for j in range(len(ids))]
                calls.append((kind, ids, direction, vals))
                return ctx.np.array(vals, dtype=float)
            return fake
        fb.compute_amp_consistency = recorder('ac')
        fb.compute_period_consistency = recorder('pc')
    try:
        if cfg.get('api') == 'obj':
            red = ctx.real('reduction')
            ctx.assume(red >= 0)
            stored = {c + '_threshold': thr1[c] + red for c in COLS}     # lowered by the reduction these are thr1
            stored['min_n_cycles'] = m1
            bm = ctx.mod('bycycle.objs.fit').Bycycle(thresholds=stored)
            bm.load(df, ctx.np.zeros(3), 500.0, (8.0, 12.0))
            bm.recompute_edges(red)
            out = bm.df_features
        else:
            out = bu.recompute_edges(df, kw1)
    except Exception as e:
        ctx.fail(exc_label(e))
        return
    finally:
        fb.compute_amp_consistency, fb.compute_period_consistency = saved
    ctx.obs('old', old)
    ctx.obs('new', ctx.tolist(out['is_burst']))
    ctx.obs('amp_consistency', ctx.tolist(out['amp_consistency']))
    ctx.obs('period_consistency', ctx.tolist(out['period_consistency']))
    # (1) the input table is untouched
    obl = [(list(df.columns) == list(snapshot.keys()), 'input table keeps its columns')]
    for c in snapshot:
        now = ctx.tolist(df[c])
        obl.append((len(now) == rows, 'input table keeps its rows'))
        obl += [(ctx.eq(now[i], snapshot[c][i]), 'input table untouched (%s)' % c) for i in range(min(rows, len(now)))]
    if not ctx.prove_all(obl):
        return
    if not ctx.prove(len(out) == rows and set(out.columns) == set(snapshot.keys()), 'output has the same rows and columns'):
        return
    # (2) which cells may change, and to what
    before = [i for i in range(rows - 1) if not old[i] and old[i + 1]]      # cycle just before a burst
    after = [i for i in range(1, rows) if not old[i] and old[i - 1]]        # cycle just after a burst
    exp = {c: list(cells[c]) for c in COLS}
    alt = {}
    for i in sorted(set(before) | set(after)):
        vals = {}
        for d in (['next'] if i in before else []) + (['last'] if i in after else []):
            if cfg['cut']:
                want_ids = list(range(max(i - 1, 0), min(i + 2, rows)))
                a_c = [c for c in calls if c[0] == 'ac' and c[1] == want_ids and c[2] == d]
                p_c = [c for c in calls if c[0] == 'pc' and c[1] == want_ids and c[2] == d]
                if not a_c or not p_c:
                    ctx.fail('edge cycle not recomputed from its neighbours looking into the burst')
                    return
                vals[d] = (a_c[-1][3][1] if len(want_ids) > 1 else nan, p_c[-1][3][1] if len(want_ids) > 1 else nan)
                continue
            cur = c05.ratio(ctx, rise[i], decay[i])
            if centre == 'peak':
                lastr = c05.ratio(ctx, rise[i], decay[i - 1]) if i >= 1 else nan
                nxtr = c05.ratio(ctx, rise[i + 1], decay[i]) if i + 1 < rows else nan
            else:
                lastr = c05.ratio(ctx, rise[i - 1], decay[i]) if i >= 1 else nan
                nxtr = c05.ratio(ctx, rise[i], decay[i + 1]) if i + 1 < rows else nan
            if i == 0 or i == rows - 1:
                a, p = nan, nan       # first / last cycle: consistency stays undefined
            else:
                a = c05.nan_min(ctx, [cur, nxtr] if d == 'next' else [cur, lastr])
                if all(ctx.truth(ctx.isnan(v)) for v in (cur, nxtr, lastr)):
                    a = nan
                if not ctx.truth(ctx.isnan(a)):
                    a = ctx.ite(a < 0, 0.0, a)
                p = c05.ratio(ctx, per[i + 1] * 1.0, per[i] * 1.0) if d == 'next' else c05.ratio(ctx, per[i] * 1.0, per[i - 1] * 1.0)
            vals[d] = (a, p)
        alt[i] = vals
    got_a = ctx.tolist(out['amp_consistency'])
    got_p = ctx.tolist(out['period_consistency'])
    obl = []
    for i in range(rows):
        if i in alt:
            opts = list(alt[i].values())
            obl.append((ctx.disj([ctx.conj([ctx.eq(got_a[i], a), ctx.eq(got_p[i], p)]) for a, p in opts]),
                        'edge cycle consistency = one-sided value looking into the burst'))
        else:
            obl.append((ctx.eq(got_a[i], cells['amp_consistency'][i]), 'amp_consistency of non-edge cycles unchanged'))
            obl.append((ctx.eq(got_p[i], cells['period_consistency'][i]), 'period_consistency of non-edge cycles unchanged'))
    for c in snapshot:
        if c in ('amp_consistency', 'period_consistency', 'is_burst'):
            continue
        now = ctx.tolist(out[c])
        obl += [(ctx.eq(now[i], snapshot[c][i]), 'column %s unchanged' % c) for i in range(rows)]
    if not ctx.prove_all(obl):
        return
    # (3) labels = threshold-and-run rule on the edited table
    edited = {c: list(cells[c]) for c in COLS}
    edited['amp_consistency'] = got_a
    edited['period_consistency'] = got_p
    want = c06.rule(ctx, edited, thr1, m1, rows)
    new = ctx.tolist(out['is_burst'])
    obl = [(new[i] == want[i], 'new labels follow the threshold-and-run rule on the edited table') for i in range(rows)]
    # (4) unchanged thresholds: bursts only grow
    obl += [(ctx.disj([ctx.neg(same_thr), new[i]]), 'with unchanged thresholds every bursting cycle stays bursting')
            for i in range(rows) if old[i]]
    ctx.prove_all(obl)
