"""C01 -- the cycle table is a complete, ordered, gap-free segmentation.

Raw samples, the band-passed samples (arbitrary filter output), the amplitude envelope, the
dual-threshold mask and the boundary are solver variables; the real compute_shape_features /
compute_features / Bycycle.fit run over the models.  Every returned table must satisfy the
ordering / tiling / boundary structure; whenever the narrow-band signal has >= 3 positive and >= 3
negative closed half-waves inside the boundary the call must return a table with >= 1 row."""
from engine.ctx import exc_label
from harness import pipe

FUNCTIONS = ['bycycle.features.features.compute_features', 'bycycle.features.shape.compute_shape_features',
             'bycycle.features.cyclepoints.compute_cyclepoints', 'bycycle.cyclepoints.extrema.find_extrema',
             'bycycle.cyclepoints.zerox.find_zerox', 'bycycle.features.burst.compute_burst_features',
             'bycycle.burst.cycle.detect_bursts_cycles', 'bycycle.burst.amp.detect_bursts_amp',
             'bycycle.utils.dataframes.rename_extrema_df', 'bycycle.utils.dataframes.drop_samples_df',
             'bycycle.objs.fit.Bycycle.fit']
BOUNDS = {'quick': 'shape layer: padded length N+2p <= 8 (9 for L=3), both centrings, filter length via default/n_cycles/n_seconds; full pipeline: padded length 8, both burst methods, return_samples both, Bycycle.fit',
          'thorough': 'shape layer: padded length <= 10; full pipeline: padded length <= 9'}
OUTSIDE = 'longer signals; numerics of the real FIR filter / Hilbert amplitude / dual-threshold detector (arbitrary outputs of the right length instead); IEEE rounding of sample arithmetic'
STUBS = ['filter_signal -> arbitrary reals', 'amp_by_time -> arbitrary reals >= 0', 'detect_bursts_dual_threshold -> arbitrary booleans',
         'compute_filter_length -> L in {0 (pad=False), 1, 3}; ValueError if both/neither n_cycles, n_seconds']
ASSUMPTIONS = ['0 <= boundary <= N + 1 (any larger boundary drops every extremum, like N + 1)',
               'paths on which the filtered signal has fewer than 2 closed half-waves of either kind are cut (bycycle raises there; the statement does not apply)',
               '"at least three full oscillations" is read as: >= 3 positive and >= 3 negative half-waves of the filtered signal, closed by zero-crossings on both sides, lying inside (boundary, N - boundary)']


def configs(tier):
    q = tier == 'quick'
    out = []
    # shape layer (compute_shape_features): n = unpadded length, padded length m = n + 2*ceil(L/2)
    for L, ns in ((0, [7, 8] if q else [7, 8, 9, 10]), (1, [6] if q else [6, 7, 8]), (3, [5] if q else [5, 6])):
        for n in ns:
            for centre in ('peak', 'trough'):
                if L == 3 and centre == 'trough' and q:
                    continue
                out.append({'mode': 'shape', 'n': n, 'L': L, 'centre': centre, 'fk': 'default'})
    for fk in ('n_cycles', 'n_seconds'):
        out.append({'mode': 'shape', 'n': 6, 'L': 1, 'centre': 'peak', 'fk': fk})
    # pattern mode: the sign pattern of the filter output is an enumerated choice (every pattern made of
    # half-waves of 1..2 samples with >= 3 closed half-waves of each kind), raw samples stay symbolic:
    # reaches multi-row tables through the REAL find_extrema / find_zerox / compute_shape_features
    for pat in patterns(11 if q else 13, 6 if q else 40):
        for centre in (('peak',) if q else ('peak', 'trough')):
            out.append({'mode': 'shape', 'n': len(pat), 'L': 0, 'centre': centre, 'fk': 'default', 'pattern': pat})
    # table assembly (compute_cyclepoints with find_extrema / find_zerox cut: arbitrary outputs that
    # satisfy their C02 / C03 contracts, positions fully symbolic) -- reaches multi-row tables
    for k in range(2, (6 if q else 9) + 1):
        out.append({'mode': 'assembly', 'k': k, 'n': 0, 'L': 0, 'centre': 'peak'})
    # full pipeline (compute_features / Bycycle.fit)
    for method in ('cycles', 'amp'):
        for L, ns in ((0, [8] if q else [8, 9]), (1, [6] if q else [6, 7])):
            for n in ns:
                for centre in ('peak', 'trough'):
                    out.append({'mode': 'full', 'n': n, 'L': L, 'centre': centre, 'method': method,
                                'return_samples': True, 'api': 'func'})
                if L == 0 and n == 8:
                    out.append({'mode': 'full', 'n': n, 'L': L, 'centre': 'peak', 'method': method,
                                'return_samples': False, 'api': 'func'})
                    out.append({'mode': 'full', 'n': n, 'L': L, 'centre': 'peak', 'method': method,
                                'return_samples': True, 'api': 'obj'})
    # the same option dictionary used for two analyses in a row (boundary must hold in both)
    for pat in (['++-++-+--+-', '+-++-+-++--'] if q else ['++-++-+--+-', '++-+-+--++-', '++--+-+-++-', '+-++-+-++--', '+-++--+--+-', '+-+-+-+--++']):
        out.append({'mode': 'shape', 'n': len(pat), 'L': 0, 'centre': 'peak', 'fk': 'default', 'pattern': pat, 'repeat': True})
    # filter length given in seconds / cycles through the object API and the functional API
    for api in ('obj', 'func'):
        for fk in ('n_seconds', 'n_cycles'):
            out.append({'mode': 'full', 'n': 6, 'L': 1, 'centre': 'peak', 'method': 'cycles', 'return_samples': True,
                        'api': api, 'fk': fk})
    return out


def patterns(max_len, limit):
    """sign patterns: lead-in, then alternating half-waves of 1..2 samples, >= 3 closed of each kind."""
    import itertools
    out = []
    for nh in (8, 9):                         # half-waves incl. the two open ones at the ends
        for lens in itertools.product((1, 2), repeat=nh):
            if sum(lens) > max_len or sum(lens) < 8:
                continue
            if sum(1 for v in lens if v == 2) not in (2, 3):
                continue
            for first in '-+':
                pat, ch = '', first
                for v in lens:
                    pat += ch * v
                    ch = '+' if ch == '-' else '-'
                out.append(pat)
    out.sort(key=lambda p: (len(p), p))
    step = max(1, len(out) // limit)
    return out[::step][:limit]


def cost(cfg):
    if cfg['mode'] == 'assembly':
        return 1
    if cfg.get('pattern'):
        return 3.0 ** len(cfg['pattern'])
    m = cfg['n'] + 2 * ((cfg['L'] + 1) // 2)
    return (4.0 if cfg['mode'] == 'shape' else 9.0) ** m


def split(cfg, tier):
    if cfg['mode'] == 'assembly':
        return None
    if cfg.get('pattern'):
        return 48
    m = cfg['n'] + 2 * ((cfg['L'] + 1) // 2)
    return 48 if m >= 7 else None


def strict_pre(ctx, f, p, n, boundary):
    rises, decays = pipe.crossings(ctx, f)
    pos, neg = pipe.closed_halfwaves(rises, decays)

    def inside(w):
        lo, hi = w
        return ctx.truth(ctx.conj([lo - p > boundary, hi - p < n - boundary]))
    return len([w for w in pos if inside(w)]) >= 3 and len([w for w in neg if inside(w)]) >= 3


def run_assembly(ctx, cfg):
    """compute_cyclepoints on top of arbitrary find_extrema / find_zerox results (their contracts:
    C02 -- alternating, starting with a peak, equally many; C03 -- one midpoint per flank, inside it)."""
    np = ctx.np
    k = cfg['k']
    cp = ctx.mod('bycycle.features.cyclepoints')
    n = ctx.integer('n')
    boundary = ctx.integer('boundary')
    ctx.assume(boundary >= 0)
    pos = [ctx.integer('e%d' % j) for j in range(2 * k)]       # P T P T ...
    ctx.assume(pos[0] > boundary)
    for j in range(1, 2 * k):
        ctx.assume(pos[j] > pos[j - 1])
    ctx.assume(pos[-1] < n - boundary)
    mids = []
    for j in range(2 * k - 1):
        m = ctx.integer('m%d' % j)
        ctx.assume(m >= pos[j])
        ctx.assume(m <= pos[j + 1])
        mids.append(m)
    peaks, troughs = pos[0::2], pos[1::2]
    decays, rises = mids[0::2], mids[1::2]
    saved = (cp.find_extrema, cp.find_zerox)
    seen = {}

    def fake_extrema(sig, fs, f_range, **kw):
        seen['kw'] = kw
        return np.array(list(peaks), dtype=int), np.array(list(troughs), dtype=int)

    def fake_zerox(sig, pk, tr):
        seen['zx'] = (ctx.tolist(pk), ctx.tolist(tr))
        return np.array(list(rises), dtype=int), np.array(list(decays), dtype=int)
    cp.find_extrema, cp.find_zerox = fake_extrema, fake_zerox
    try:
        df = cp.compute_cyclepoints(np.zeros(4), 1000.0, (8.0, 12.0), boundary=boundary)
    except Exception as e:
        ctx.fail(exc_label(e))
        return
    finally:
        cp.find_extrema, cp.find_zerox = saved
    cols = pipe.table_cols(ctx, df)
    need = pipe.sample_cols('peak')
    if not ctx.prove(all(c in cols for c in need) and len(df) == k - 1, 'one row per cycle with all cyclepoint columns'):
        return
    ctx.obs('samples', {c: cols[c] for c in need})
    obl = pipe.segmentation_obligations(ctx, cols, 'peak', n, boundary)
    obl.append((seen.get('kw', {}).get('boundary') is boundary or ctx.mode == 'real', 'boundary forwarded to find_extrema'))
    # every extremum handed over by find_extrema from the second peak on is used exactly once, in order
    obl += [(cols['sample_peak'][i] == peaks[i + 1], 'centre extrema are the peaks in temporal order') for i in range(k - 1)]
    obl += [(cols['sample_last_trough'][i] == troughs[i], 'side extrema are the troughs in temporal order') for i in range(k - 1)]
    ctx.prove_all(obl)


def run(ctx, cfg):
    if cfg['mode'] == 'assembly':
        return run_assembly(ctx, cfg)
    np = ctx.np
    n, L, centre = cfg['n'], cfg['L'], cfg['centre']
    p = (L + 1) // 2
    x = [ctx.real('x%d' % i) for i in range(n)]
    boundary = ctx.integer('boundary')
    ctx.assume(boundary >= 0)
    ctx.assume(boundary <= n + 1)      # larger values drop every extremum alike
    st = pipe.Stubs(ctx, L, min_halfwaves=2, pattern=cfg.get('pattern'))
    sig = np.array(list(x), dtype=float)
    fek = {'boundary': boundary, 'pad': L > 0}
    fk = cfg.get('fk', 'default')
    if fk == 'n_cycles':
        fek['filter_kwargs'] = {'n_cycles': 3}
    elif fk == 'n_seconds':
        fek['filter_kwargs'] = {'n_seconds': 0.25}
    raised, df = None, None
    try:
        if cfg['mode'] == 'shape':
            if cfg.get('repeat'):
                # a first analysis with the very same option dictionary (other centring): must leave no trace
                st.relate = ('same',)
                ctx.assume(boundary >= 1)
                try:
                    ctx.mod('bycycle.features.shape').compute_shape_features(
                        sig, 1000.0, (8.0, 12.0), center_extrema='peak', find_extrema_kwargs=fek)
                except Exception:
                    pass
            df = ctx.mod('bycycle.features.shape').compute_shape_features(
                sig, 1000.0, (8.0, 12.0), center_extrema=centre, find_extrema_kwargs=fek)
        else:
            method = cfg['method']
            thr = ({'amp_fraction_threshold': 0.0, 'amp_consistency_threshold': 0.5,
                    'period_consistency_threshold': 0.5, 'monotonicity_threshold': 0.5, 'min_n_cycles': 2}
                   if method == 'cycles' else {'burst_fraction_threshold': 0.5, 'min_n_cycles': 2})
            if cfg['api'] == 'func':
                df = ctx.mod('bycycle.features.features').compute_features(
                    sig, 1000.0, (8.0, 12.0), center_extrema=centre, burst_method=method,
                    burst_kwargs=None, threshold_kwargs=thr, find_extrema_kwargs=fek,
                    return_samples=cfg['return_samples'])
            else:
                bm = ctx.mod('bycycle.objs.fit').Bycycle(center_extrema=centre, burst_method=method, thresholds=thr,
                                                          find_extrema_kwargs=fek, return_samples=cfg['return_samples'])
                bm.fit(sig, 1000.0, (8.0, 12.0))
                df = bm.df_features
    except Exception as e:
        raised = e
    if not st.filt:
        if raised is not None:
            ctx.fail(exc_label(raised))
        return
    f = st.filt[-1]['out']
    strict = strict_pre(ctx, f, p, n, boundary)
    if raised is not None:
        # too few oscillations may end in the library's IndexError / ValueError; any other exception type
        # (TypeError, KeyError, AttributeError ...) is a defect whatever the signal
        if strict or not isinstance(raised, (IndexError, ValueError)):
            ctx.fail(exc_label(raised))
        return
    if df is None or not hasattr(df, 'columns'):
        ctx.fail('no table returned')
        return
    cols = pipe.table_cols(ctx, df)
    names = list(cols.keys())
    rows = len(df)
    if strict:
        ctx.prove(rows >= 1, 'a table with at least one cycle is returned for >= 3 full oscillations')
    if cfg['mode'] == 'full' and not cfg['return_samples']:
        ctx.prove(not any(c.startswith('sample_') for c in names), 'no sample_* column when return_samples=False')
        ctx.prove('is_burst' in names and len(cols['is_burst']) == rows, 'one burst label per cycle')
        ctx.obs('rows', rows)
        return
    need = pipe.sample_cols(centre)
    if not ctx.prove(all(c in names for c in need), 'cyclepoint sample columns present (named for the centring)'):
        return
    ctx.obs('samples', {c: cols[c] for c in need})
    obl = pipe.segmentation_obligations(ctx, cols, centre, n, boundary)
    if cfg['mode'] == 'full':
        obl.append(('is_burst' in names and len(cols.get('is_burst', [])) == rows, 'one burst label per cycle'))
    ctx.prove_all(obl)
    if not obl:
        ctx.reachable()
