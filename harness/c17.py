"""C17 -- extrema_interpolated_phase is anchored at the cyclepoints, stays in [-pi, pi],
is monotone between cyclepoints (only decrease: the +pi -> -pi wrap at a trough), finite on
[first cyclepoint, last cyclepoint] and NaN outside.

Cyclepoint positions are integer solver variables (every alternating placement with extrema
>= 2 apart, midpoints anywhere inside their flank inclusively, last cyclepoint anywhere up to
the last sample); numpy.pi is a real variable within 1e-13 of the float pi, so every phase
value is an exact linear term and each assertion is a solver query."""
from engine.ctx import exc_label

FUNCTIONS = ['bycycle.cyclepoints.phase.extrema_interpolated_phase', 'bycycle.cyclepoints.phase._merge_phases']
BOUNDS = {'quick': 'signal length N <= 9, 2..4 alternating extrema, midpoints supplied (both, rises only, decays only) or None, optionally a leading / trailing midpoint outside the extrema (N <= 8, <= 3 extrema)',
          'thorough': 'signal length N <= 14, 2..6 alternating extrema, midpoints supplied or None'}
OUTSIDE = 'longer arrays; IEEE rounding inside np.interp (exact reals are used)'
STUBS = []
ASSUMPTIONS = ['extrema alternate and are >= 2 samples apart; each midpoint lies inside its flank (inclusive)',
               'numpy model of interp/diff/append validated by witness replay on real numpy']


def configs(tier):
    top_n, top_k = (9, 4) if tier == 'quick' else (14, 6)
    out = []
    for n in range(3, top_n + 1):
        for k in range(2, top_k + 1):
            if 2 * (k - 1) + 1 > n:
                continue
            for first in ('peak', 'trough'):
                for mid in (True, False):
                    out.append({'n': n, 'k': k, 'first': first, 'mid': mid, 'lead': False, 'trail': False})
                    if n == 6 and k == 2:
                        out.append({'n': n, 'k': k, 'first': first, 'mid': mid, 'lead': False, 'trail': False, 'dtype': 'int'})
                # only one kind of midpoint supplied (the two are independent optional arguments)
                if k <= 3 and n <= (7 if tier == 'quick' else 9):
                    for only in ('rises', 'decays'):
                        out.append({'n': n, 'k': k, 'first': first, 'mid': True, 'lead': False, 'trail': False, 'only': only})
                # the supplied set may also start / end with a midpoint (decay before the first trough, ...)
                if k <= 3 and n <= (8 if tier == 'quick' else 10):
                    for lead, trail in ((True, False), (False, True), (True, True)):
                        out.append({'n': n, 'k': k, 'first': first, 'mid': True, 'lead': lead, 'trail': trail})
    return out


def cost(cfg):
    return (cfg['n'] ** cfg['k']) * (8 if cfg['mid'] else 1)


def split(cfg, tier):
    return 24 if cost(cfg) >= 3000 else None


def run(ctx, cfg):
    np = ctx.np
    n, k, first, mid = cfg['n'], cfg['k'], cfg['first'], cfg['mid']
    ph = ctx.mod('bycycle.cyclepoints.phase')
    pi = ctx.symbolic_pi()
    ps = [ctx.integer('p%d' % j) for j in range(k)]
    ctx.assume(ps[0] >= 0)
    for j in range(1, k):
        ctx.assume(ps[j] >= ps[j - 1] + 2)
    ctx.assume(ps[-1] <= n - 1)
    pos = [ctx.toint(p) for p in ps]
    kinds = [first if j % 2 == 0 else ('trough' if first == 'peak' else 'peak') for j in range(k)]
    peaks = [p for p, kd in zip(pos, kinds) if kd == 'peak']
    troughs = [p for p, kd in zip(pos, kinds) if kd == 'trough']
    rises, decays = None, None
    lead_pos = trail_pos = None
    if mid:
        rises, decays = [], []
        if cfg.get('lead'):
            # a midpoint before the first extremum: a decay precedes a trough, a rise precedes a peak
            m = ctx.integer('mlead')
            ctx.assume(m >= 0)
            ctx.assume(m <= pos[0])
            lead_pos = ctx.toint(m)
            (decays if kinds[0] == 'trough' else rises).append(lead_pos)
        for j in range(k - 1):
            m = ctx.integer('m%d' % j)
            ctx.assume(m >= pos[j])
            ctx.assume(m <= pos[j + 1])
            mv = ctx.toint(m)
            (rises if kinds[j] == 'trough' else decays).append(mv)
        if cfg.get('trail'):
            m = ctx.integer('mtrail')
            ctx.assume(m >= pos[-1])
            ctx.assume(m <= n - 1)
            trail_pos = ctx.toint(m)
            (rises if kinds[-1] == 'trough' else decays).append(trail_pos)
    if cfg.get('only') == 'rises':
        decays = None
    elif cfg.get('only') == 'decays':
        rises = None
    sig = np.zeros(n, dtype=int) if cfg.get('dtype') == 'int' else np.zeros(n)      # only its length may matter
    try:
        pha = ph.extrema_interpolated_phase(
            sig, np.array(peaks, dtype=int), np.array(troughs, dtype=int),
            rises=None if rises is None else np.array(rises, dtype=int),
            decays=None if decays is None else np.array(decays, dtype=int))
    except Exception as e:
        ctx.fail(exc_label(e))
        return
    pha = ctx.tolist(pha)
    ctx.obs('pha', pha)
    if not ctx.prove(len(pha) == n, 'one phase value per sample'):
        return
    lo = pos[0] if lead_pos is None else lead_pos
    hi = pos[-1] if trail_pos is None else trail_pos
    obl = []
    for i in range(n):
        if i < lo or i > hi:
            obl.append((ctx.isnan(pha[i]), 'NaN outside [first cyclepoint, last cyclepoint]'))
        else:
            obl.append((ctx.neg(ctx.isnan(pha[i])), 'finite on [first cyclepoint, last cyclepoint]'))
    if not ctx.prove_all(obl):
        return
    obl = []
    ext = set(pos)
    for p in peaks:
        obl.append((pha[p] == 0, 'phase 0 at peaks'))
    for t in troughs:
        obl.append((ctx.disj([pha[t] == pi, pha[t] == -pi]), 'phase +-pi at troughs'))
    for r in (rises or []):
        if r not in ext:
            obl.append((pha[r] == -pi / 2, 'phase -pi/2 at rise midpoints'))
    for d in (decays or []):
        if d not in ext:
            obl.append((pha[d] == pi / 2, 'phase +pi/2 at decay midpoints'))
    for i in range(lo, hi + 1):
        obl.append((ctx.conj([pha[i] >= -pi, pha[i] <= pi]), 'phase within [-pi, pi]'))
    for i in range(lo, hi):
        if (i + 1) in troughs or i in troughs:
            continue     # the single permitted decrease: +pi -> -pi wrap at a trough
        obl.append((pha[i + 1] >= pha[i], 'phase advances monotonically between cyclepoints'))
    ctx.prove_all(obl)
