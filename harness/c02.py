"""C02 -- find_extrema reports exactly the first raw-signal extreme of every closed
narrow-band half-wave, drops extrema at/inside the boundary, honours first_extrema.

Raw samples AND the band-passed samples are unbounded symbolic reals: the filter is an
over-approximating stub returning an arbitrary signal of the padded length, so every sign
pattern any FIR/IIR filter could produce is explored (the explorer forks on the signs the
code reads).  ``boundary`` is an unbounded symbolic integer >= 0."""
from engine.ctx import exc_label

FUNCTIONS = ['bycycle.cyclepoints.extrema.find_extrema', 'bycycle.cyclepoints.zerox.find_flank_zerox']
BOUNDS = {'quick': 'padded length N+2p <= 8 (N 3..6 with p in {0,1,2}); every raw signal, every filter output, every boundary >= 0; first_extrema in {peak,trough,None,invalid}; filter length via n_cycles / n_seconds / default; int16 / uint8 signals (every value of the type) with N <= 5',
          'thorough': 'padded length N+2p <= 10; otherwise as quick'}
OUTSIDE = 'longer signals; numerical behaviour of the real FIR filter (replaced by an arbitrary output); signals whose filtered version has no rising or no decaying zero-crossing (dummy-crossing path, outside the statement)'
STUBS = ['neurodsp.filt.filter_signal -> arbitrary real array of len(sig); ValueError if fs <= 0',
         'neurodsp.filt.fir.compute_filter_length -> harness-chosen odd L in {1,3}; ValueError if both/neither of n_cycles, n_seconds (real library behaviour)']
ASSUMPTIONS = ['filtered signal has >= 1 rising and >= 1 decaying zero-crossing',
               'half-wave window = [rise index, next decay index) in padded coordinates (DESIGN 4 C02)']


def configs(tier):
    top = 8 if tier == 'quick' else 10
    out = []
    for L in (0, 1, 3):
        p = (L + 1) // 2
        for n in range(3, top - 2 * p + 1):
            for first in ('peak', 'trough', None, 'bogus'):
                fks = ['default'] if first in ('trough', 'bogus') else ['default', 'n_cycles', 'n_seconds']
                for fk in fks:
                    if L == 0 and fk != 'default':
                        continue
                    out.append({'n': n, 'L': L, 'first': first, 'fk': fk})
    # recordings stored as machine integers (raw ADC counts, saturation at the type's limits included)
    for dt in ('int16', 'uint8'):
        for L in (0, 1):
            for n in ((4, 5) if tier == 'quick' else (4, 5, 6)):
                out.append({'n': n, 'L': L, 'first': 'peak', 'fk': 'default', 'dtype': dt})
    return out


def cost(cfg):
    return 4.0 ** (cfg['n'] + 2 * ((cfg['L'] + 1) // 2))


def split(cfg, tier):
    return 32 if cfg['n'] + 2 * ((cfg['L'] + 1) // 2) >= 7 else None


def install_filter_stub(ctx, L, tag='f'):
    """filter_signal returns fresh symbolic reals; compute_filter_length returns L."""
    np = ctx.np
    st = ctx.env.CUR
    store = {}

    def filt(sig, fs, pass_type, f_range, remove_edges, kw):
        k = len(store)
        vals = [ctx.real('%s%d_%d' % (tag, k, i)) for i in range(len(sig))]
        store[k] = (sig, vals)
        return np.array(vals, dtype=float)

    st.filter_signal = filt
    st.filter_length = lambda fs, pt, lo, hi, nc, ns: L
    return store


def halfwaves(ctx, f):
    """rise / decay crossing indices of the filtered signal (concretised)."""
    rises, decays = [], []
    for i in range(len(f) - 1):
        if ctx.truth(ctx.conj([f[i] <= 0, f[i + 1] > 0])):
            rises.append(i)
        if ctx.truth(ctx.conj([f[i] > 0, f[i + 1] <= 0])):
            decays.append(i)
    return rises, decays


def expected_extrema(ctx, rises, decays):
    """Reference: half-wave windows (lo, hi) for peaks and troughs, in temporal order."""
    pk = []
    for r in rises:
        nxt = [d for d in decays if d > r]
        if nxt:
            pk.append((r, nxt[0]))
    tr = []
    for d in decays:
        nxt = [r for r in rises if r > d]
        if nxt:
            tr.append((d, nxt[0]))
    return pk, tr


def run(ctx, cfg):
    np = ctx.np
    n, L, first, fk = cfg['n'], cfg['L'], cfg['first'], cfg['fk']
    p = (L + 1) // 2
    M = n + 2 * p
    ex = ctx.mod('bycycle.cyclepoints.extrema')
    if cfg.get('dtype'):
        x, sig = ctx.int_signal(['x%d' % i for i in range(n)], cfg['dtype'])
    else:
        x = [ctx.real('x%d' % i) for i in range(n)]
        sig = np.array(list(x), dtype=float)
    boundary = ctx.integer('boundary')
    ctx.assume(boundary >= 0)
    ctx.assume(boundary <= n + 1)      # larger values drop every extremum alike
    store = install_filter_stub(ctx, L)
    kwargs = {}
    if fk == 'n_cycles':
        kwargs['filter_kwargs'] = {'n_cycles': 3}
    elif fk == 'n_seconds':
        kwargs['filter_kwargs'] = {'n_seconds': 0.5}
    raised = None
    try:
        peaks, troughs = ex.find_extrema(sig, 1000.0, (8.0, 12.0), boundary=boundary, first_extrema=first,
                                         pad=(L > 0), **kwargs)
    except Exception as e:
        raised = e
    if len(store) != 1:
        if raised is not None:
            ctx.fail(exc_label(raised))
        else:
            ctx.fail('filter_signal called %d times' % len(store))
        return
    fsig, f = store[0]
    # the pad length must be computed from the caller's filter length (and band), nothing else
    if L > 0:
        fl = [c[1] for c in ctx.env.CUR.calls if c[0] == 'compute_filter_length']
        want = {'default': (3, None), 'n_cycles': (3, None), 'n_seconds': (None, 0.5)}[fk]
        ok = len(fl) == 1 and (fl[0]['n_cycles'], fl[0]['n_seconds']) == want and fl[0]['fs'] == 1000.0 \
            and (fl[0]['f_lo'], fl[0]['f_hi']) == (8.0, 12.0) and fl[0]['pass_type'] == 'bandpass'
        if not ctx.prove(ok, 'pad length computed from the caller\'s filter length (n_cycles / n_seconds), fs and band'):
            return
    # precondition of the statement: the narrow-band signal has both kinds of crossings
    rises, decays = halfwaves(ctx, f)
    if not rises or not decays:
        return    # outside the statement (dummy-crossing path); not asserted, not counted
    if not ctx.prove(len(f) == M, 'signal is padded by ceil(L/2) on both sides before filtering'):
        return
    xpad = [0.0] * p + list(x) + [0.0] * p
    pk_w, tr_w = expected_extrema(ctx, rises, decays)

    def first_extreme(lo, hi, want_max):
        best = lo
        for j in range(lo + 1, hi):
            c = (xpad[j] > xpad[best]) if want_max else (xpad[j] < xpad[best])
            if ctx.truth(c):
                best = j
        return best

    exp_p = [first_extreme(lo, hi, True) - p for lo, hi in pk_w]
    exp_t = [first_extreme(lo, hi, False) - p for lo, hi in tr_w]
    keep = lambda i: ctx.truth(ctx.conj([i > boundary, i < n - boundary]))   # noqa: E731
    exp_p = [i for i in exp_p if keep(i)]
    exp_t = [i for i in exp_t if keep(i)]
    if first in ('peak', 'trough'):
        if not exp_p or not exp_t:
            return    # nothing to align: outside the statement's domain
        if first == 'peak':
            if exp_p[0] > exp_t[0]:
                exp_t = exp_t[1:]
            if exp_t and exp_p[-1] > exp_t[-1]:
                exp_p = exp_p[:-1]
        else:
            if exp_t[0] > exp_p[0]:
                exp_p = exp_p[1:]
            if exp_p and exp_t[-1] > exp_p[-1]:
                exp_t = exp_t[:-1]
        if not exp_p or not exp_t:
            return
    if first == 'bogus':
        if raised is None:
            ctx.fail('invalid first_extrema accepted')
        elif isinstance(raised, ValueError):
            ctx.prove(True, 'invalid first_extrema rejected with ValueError')
        else:
            ctx.fail(exc_label(raised))
        return
    if raised is not None:
        ctx.fail(exc_label(raised))
        return
    peaks, troughs = ctx.tolist(peaks), ctx.tolist(troughs)
    ctx.obs('peaks', peaks)
    ctx.obs('troughs', troughs)
    obl = [(len(peaks) == len(exp_p), 'one peak per closed positive half-wave (after boundary / first_extrema rule)'),
           (len(troughs) == len(exp_t), 'one trough per closed negative half-wave (after boundary / first_extrema rule)')]
    if len(peaks) == len(exp_p):
        obl += [(a == b, 'peak at first maximum of the raw signal over its half-wave window')
                for a, b in zip(peaks, exp_p)]
    if len(troughs) == len(exp_t):
        obl += [(a == b, 'trough at first minimum of the raw signal over its half-wave window')
                for a, b in zip(troughs, exp_t)]
    if first in ('peak', 'trough') and len(peaks) == len(exp_p) and len(troughs) == len(exp_t):
        obl.append((len(peaks) == len(troughs), 'equally many peaks and troughs when first_extrema is set'))
        lead, other = (peaks, troughs) if first == 'peak' else (troughs, peaks)
        obl.append((lead[0] < other[0], 'sequence starts with the requested kind'))
    ctx.prove_all(obl)
