"""C20 -- the plots draw the analysis they are given.

Part 1 (this harness, real arithmetic): raw samples, z-scored samples (fresh symbols), feature
cells, labels and thresholds are solver variables; cyclepoint positions and x-limits (on the sample
grid) are integer solver variables concretised by forking; fs is a power of two so that the times
axis is exact.  The real plot functions run with recording stubs for neurodsp / matplotlib; the
observation point is the argument list of plot_time_series / plot_bursts / axvspan (that those
draw what they are given is their contract).
Part 2 (engine/fpkern.py, run by the same check): the seconds<->samples expressions of the plot
code and of limit_df are translated from the current source AST into QF_FP and z3 is asked for a
rounding counterexample for the listed sampling rates."""
from engine.ctx import exc_label
from harness import pipe, c06, c09, c15

FUNCTIONS = ['bycycle.plts.cyclepoints.plot_cyclepoints_df', 'bycycle.plts.cyclepoints.plot_cyclepoints_array',
             'bycycle.plts.burst.plot_burst_detect_summary', 'bycycle.plts.burst.plot_burst_detect_param',
             'bycycle.objs.fit.Bycycle.plot', 'bycycle.utils.dataframes.limit_df', 'bycycle.utils.timeseries.limit_signal']
BOUNDS = {'quick': 'floating-point kernels: fs in {1000, 250, 512}, sample index < 2^14; cyclepoint plots: 1..2 cycles on N <= 7; burst summary / parameter panels: 1..2 cycles on N <= 7 (3 cycles on N = 8 for the summary); fs in {1, 2}; x-limits None or every window on the sample grid; both centrings; plot_only_result / interp / the four kind switches',
          'thorough': 'floating-point kernels: fs in {1000, 500, 250, 100, 256, 512, 128}, sample index < 2^20; N <= 9, up to 3 cycles everywhere, fs in {1, 2, 0.5, 4}'}
OUTSIDE = 'what matplotlib rasterises; sampling rates that are not powers of two are covered by the floating-point kernels only (index < 2^20, listed fs)'
STUBS = ['neurodsp.plts.plot_time_series / plot_bursts, matplotlib axes (axvspan) -> recorders', 'scipy.stats.zscore -> fresh symbolic samples']
ASSUMPTIONS = ['tables obey the C01 invariant', '"strictly inside the view" = sample index strictly between the first and the last plotted sample; a cycle is "entirely inside the view" when all its samples are plotted']


def configs(tier):
    q = tier == 'quick'
    out = []
    # cyclepoint plots: positions of extrema AND midpoints symbolic
    for rows, n in ([(1, 4), (1, 5), (2, 6)] if q else [(1, 4), (1, 5), (2, 6), (2, 7)]):
        for centre in ('peak', 'trough'):
            for xl in ('none', 'grid'):
                for sw in ('both', 'extrema', 'zerox'):
                    for fs in ([1, 2] if q else [1, 2, 0.5, 4]):
                        if (fs != 1 or sw != 'both') and (rows == 2 and xl == 'grid' or n == 7):
                            continue
                        if fs not in (1, 2) and rows == 2:
                            continue
                        out.append({'fn': 'cp_df', 'rows': rows, 'n': n, 'centre': centre, 'xlim': xl, 'sw': sw, 'fs': fs})
    # burst summary: midpoints are not drawn -> only the extrema positions are symbolic; one (two)
    # thresholded parameter(s) per configuration keeps the number of value comparisons small
    keys = c06.COLS
    k = 0
    for rows, n in ([(1, 4), (2, 6)] if q else [(1, 4), (2, 6), (2, 7), (3, 8)]):
        for centre in ('peak', 'trough'):
            for xl in ('none', 'grid'):
                for por, interp in ((False, True), (False, False), (True, True)):
                    k += 1
                    out.append({'fn': 'summary', 'rows': rows, 'n': n, 'centre': centre, 'xlim': xl, 'por': por,
                                'interp': interp, 'fs': 2 if (k % 3 == 0) else 1, 'api': 'func',
                                'keys': [keys[k % 4]] if rows > 1 else [keys[k % 4], keys[(k + 1) % 4]]})
    out.append({'fn': 'summary', 'rows': 2, 'n': 6, 'centre': 'peak', 'xlim': 'none', 'por': False, 'interp': True,
                'fs': 1, 'api': 'obj', 'keys': [keys[0]]})
    out.append({'fn': 'summary', 'rows': 1, 'n': 4, 'centre': 'trough', 'xlim': 'grid', 'por': False, 'interp': True,
                'fs': 1, 'api': 'obj', 'keys': [keys[2]]})
    for rows, n in ([(1, 4), (2, 6)] if q else [(1, 4), (2, 6), (2, 7), (3, 8)]):
        for centre in ('peak', 'trough'):
            for xl in ('none', 'grid'):
                for interp in (True, False):
                    out.append({'fn': 'param', 'rows': rows, 'n': n, 'centre': centre, 'xlim': xl, 'interp': interp, 'fs': 1})
    from engine import fpkern
    out += fpkern.configs(tier)
    return out


def cost(cfg):
    if cfg['fn'] == 'fp':
        return 10 ** 6 * (1 + cfg.get('k', 0))
    return (3.0 ** cfg['n']) * (cfg['n'] ** 2 / 2 if cfg['xlim'] == 'grid' else 1) * (6 if cfg['fn'] == 'summary' else 1)


def split(cfg, tier):
    return 32 if cfg['fn'] != 'fp' and cost(cfg) > 3000 else None


def may_be_vacuous(cfg):
    return False


def extrema_table(ctx, rows, n):
    """Only the extrema positions are symbolic; midpoints sit on extrema (they are not drawn)."""
    k = 2 * rows + 1
    ps = [ctx.integer('e%d' % j) for j in range(k)]
    ctx.assume(ps[0] >= 0)
    for j in range(1, k):
        ctx.assume(ps[j] > ps[j - 1])
    ctx.assume(ps[-1] <= n - 1)
    pos = [ctx.toint(p) for p in ps]
    return {'sample_peak': [pos[2 * r + 1] for r in range(rows)],
            'sample_last_zerox_decay': [pos[2 * r] for r in range(rows)],
            'sample_zerox_decay': [pos[2 * r + 2] for r in range(rows)],
            'sample_zerox_rise': [pos[2 * r + 1] for r in range(rows)],
            'sample_last_trough': [pos[2 * r] for r in range(rows)],
            'sample_next_trough': [pos[2 * r + 2] for r in range(rows)]}


def make_table(ctx, rows, n, centre, with_features=True):
    t = c09.symbolic_table(ctx, rows, n) if not with_features else extrema_table(ctx, rows, n)
    ren = dict(zip(pipe.sample_cols('peak'), pipe.sample_cols(centre)))
    data = {ren[c]: list(v) for c, v in t.items()}
    if with_features:
        for c in c06.COLS:
            data[c] = [ctx.real('%s_%d' % (c, i), nan_allowed=False) for i in range(rows)]
        data['is_burst'] = [ctx.boolean('lab%d' % i) for i in range(rows)]
    return data


def choose_xlim(ctx, n, fs, kind):
    if kind == 'none':
        return None, 0, n
    a, b = ctx.integer('xa'), ctx.integer('xb')
    ctx.assume(a >= 0)
    ctx.assume(b > a)
    ctx.assume(b <= n)
    a, b = ctx.toint(a), ctx.toint(b)
    return (a / fs, b / fs), a, b


def marker_obligations(ctx, call, groups, plotted, fs, a, b, has_xlim, n, obl, complete=True):
    """plot_time_series(x_values, y_values, ..., marker='o') against the genuine cyclepoints."""
    xs, ys = call[2], call[3]
    if not (isinstance(xs, list) and isinstance(ys, list) and len(xs) == len(groups) == len(ys)):
        obl.append((False, 'one marker series per requested cyclepoint kind'))
        return
    # 'strictly inside the view': strictly between the first and the last plotted sample (weakest reading)
    lo_req, hi_req = a, b - 1
    for (kind, genuine), xv, yv in zip(groups, xs, ys):
        xv, yv = ctx.tolist(xv), ctx.tolist(yv)
        obl.append((len(xv) == len(yv), 'markers have one x and one y each'))
        drawn = []
        for x, y in zip(xv, yv):
            s = x * fs
            ok = (s == int(s)) and int(s) in genuine and a <= int(s) <= b - 1
            obl.append((ok, '%s marker sits at the time of a genuine %s' % (kind, kind)))
            if ok:
                obl.append((ctx.eq(y, plotted[int(s)]), '%s marker sits at the plotted signal value of its sample' % kind))
                drawn.append(int(s))
        for s in sorted(set(genuine)):
            if complete and lo_req < s < hi_req:
                obl.append((s in drawn, 'every %s strictly inside the view is drawn' % kind))
        obl.append((len(drawn) == len(set(drawn)), 'no %s drawn twice' % kind))


def cp_groups(data, centre, extrema=True, zerox=True):
    last_c, _, m1_c, cen_c, m2_c, next_c = pipe.sample_cols(centre)
    g = []
    if extrema:
        g.append(('centre extremum', list(data[cen_c])))
        g.append(('side extremum', list(data[last_c]) + list(data[next_c])))
    if zerox:
        g.append(('rise midpoint', list(data['sample_zerox_rise'])))
        g.append(('decay midpoint', list(data['sample_zerox_decay'])))
    return g


def run(ctx, cfg):
    if cfg['fn'] == 'fp':
        return run_fp(ctx, cfg)
    np, pd = ctx.np, ctx.pd
    fn, rows, n, centre, fs = cfg['fn'], cfg['rows'], cfg['n'], cfg['centre'], cfg['fs']
    x = [ctx.real('x%d' % i) for i in range(n)]
    sig = np.array(list(x), dtype=float)
    z = [ctx.real('z%d' % i) for i in range(n)]
    ctx.env.CUR.zscore = lambda s: np.array(list(z), dtype=float)
    data = make_table(ctx, rows, n, centre, with_features=(fn != 'cp_df'))
    xlim, a, b = choose_xlim(ctx, n, fs, cfg['xlim'])
    df = pd.DataFrame({c: list(v) for c, v in data.items()})
    plots = ctx.env.CUR.plots
    snaps = [c15.snap(ctx, o) for o in (df, sig)]
    if fn == 'cp_df':
        pc = ctx.mod('bycycle.plts.cyclepoints')
        ex, zx = cfg['sw'] in ('both', 'extrema'), cfg['sw'] in ('both', 'zerox')
        try:
            pc.plot_cyclepoints_df(df, sig, fs, plot_sig=True, plot_extrema=ex, plot_zerox=zx, xlim=xlim)
        except Exception as e:
            ctx.fail(exc_label(e))
            return
        calls = [p for p in plots if p[0] == 'plot_time_series']
        if not ctx.prove(len(calls) == 2, 'the trace and the markers are drawn once each'):
            return
        obl = []
        tr = calls[0]
        tt, ts = ctx.tolist(tr[2]), ctx.tolist(tr[3])
        obl.append((len(tt) == b - a and len(ts) == b - a, 'the trace shows exactly the samples inside the x-limits'))
        if len(tt) == b - a and len(ts) == b - a:
            obl += [(tt[i] * fs == a + i, 'trace sample times are sample / fs') for i in range(b - a)]
            obl += [(ctx.eq(ts[i], x[a + i]), 'trace values are the signal') for i in range(b - a)]
        marker_obligations(ctx, calls[1], cp_groups(data, centre, ex, zx), x, fs, a, b, xlim is not None, n, obl)
        c15.unchanged(ctx, snaps[0], df, 'df_samples', obl)
        c15.unchanged(ctx, snaps[1], sig, 'sig', obl)
        ctx.prove_all(obl)
        return
    use = cfg.get('keys', ['amp_consistency'])
    thr = {c + '_threshold': ctx.real('thr_' + c) for c in use}
    for v in thr.values():
        ctx.assume(v >= 0)
        ctx.assume(v <= 1)
    if fn == 'param':
        pb = ctx.mod('bycycle.plts.burst')
        ax = ctx.env.RecAxes()
        param = 'amp_consistency'
        try:
            pb.plot_burst_detect_param(df, sig, fs, param, thr[param + '_threshold'], xlim=xlim, interp=cfg['interp'], ax=ax)
        except Exception as e:
            ctx.fail(exc_label(e))
            return
        obl = []
        param_obligations(ctx, [p for p in plots if p[1] == ax.id], data, centre, param, thr[param + '_threshold'],
                          fs, a, b, xlim is not None, n, cfg['interp'], obl)
        c15.unchanged(ctx, snaps[0], df, 'df_features', obl)
        c15.unchanged(ctx, snaps[1], sig, 'sig', obl)
        ctx.prove_all(obl)
        return
    # burst summary
    thr_arg = dict(thr)
    thr_arg['min_n_cycles'] = 2
    tsnap = c15.snap(ctx, thr_arg)
    pb = ctx.mod('bycycle.plts.burst')
    try:
        if cfg['api'] == 'func':
            pb.plot_burst_detect_summary(df, sig, fs, thr_arg, xlim=xlim, plot_only_result=cfg['por'], interp=cfg['interp'])
        else:
            bm = ctx.mod('bycycle.objs.fit').Bycycle(center_extrema=centre, thresholds=thr_arg)
            bm.load(df, sig, fs, (8.0, 12.0))
            bm.plot(xlim=xlim, plot_only_results=cfg['por'], interp=cfg['interp'])
    except Exception as e:
        ctx.fail(exc_label(e))
        return
    obl = []
    bursts = [p for p in plots if p[0] == 'plot_bursts']
    if not ctx.prove(len(bursts) == 1, 'the burst trace is drawn once'):
        return
    _, axid, tt, ts, mask, _kw = bursts[0]
    tt, ts, mask = ctx.tolist(tt), ctx.tolist(ts), ctx.tolist(mask)
    w = b - a
    if not ctx.prove(len(tt) == w and len(ts) == w and len(mask) == w, 'trace, times and highlight cover exactly the samples inside the x-limits'):
        return
    obl += [(tt[i] * fs == a + i, 'trace sample times are sample / fs') for i in range(w)]
    obl += [(ctx.eq(ts[i], z[a + i]), 'the normalised signal is drawn') for i in range(w)]
    last_c, _, _, cen_c, _, next_c = pipe.sample_cols(centre)
    lab = data['is_burst']
    for i in range(w):
        s = a + i
        in_burst = ctx.disj([lab[r] for r in range(rows) if data[last_c][r] <= s <= data[next_c][r]])
        obl.append((ctx.disj([ctx.neg(mask[i]), in_burst]), 'highlight contains only samples of cycles labelled is_burst'))
    for r in range(rows):
        if a <= data[last_c][r] and data[next_c][r] <= b - 1:
            for s in range(data[last_c][r], data[next_c][r] + 1):
                if a <= s <= b - 1:
                    obl.append((ctx.disj([ctx.neg(lab[r]), mask[s - a]]), 'every sample of a bursting cycle entirely inside the view is highlighted'))
    # extrema markers on the summary axis (z-scored signal)
    markers = [p for p in plots if p[0] == 'plot_time_series' and p[1] == axid]
    if len(markers) == 1:
        marker_obligations(ctx, markers[0], cp_groups(data, centre, True, False), z, fs, a, b, xlim is not None, n, obl,
                           complete=False)     # completeness is stated for the cyclepoint plots only
    else:
        obl.append((False, 'extrema markers drawn once on the summary axis'))
    if not cfg['por']:
        axes_ids = sorted({p[1] for p in plots if p[0] == 'plot_time_series' and p[1] != axid})
        obl.append((len(axes_ids) == len(use), 'one panel per thresholded parameter'))
        for c, pid in zip(use, axes_ids):
            param_obligations(ctx, [p for p in plots if p[1] == pid], data, centre, c, thr[c + '_threshold'],
                              fs, a, b, xlim is not None, n, cfg['interp'], obl)
    c15.unchanged(ctx, snaps[0], df, 'df_features', obl)
    c15.unchanged(ctx, snaps[1], sig, 'sig', obl)
    c15.unchanged(ctx, tsnap, thr_arg, 'threshold_kwargs', obl)
    ctx.prove_all(obl)


def param_obligations(ctx, calls, data, centre, param, thresh, fs, a, b, has_xlim, n, interp, obl):
    last_c, _, _, cen_c, _, next_c = pipe.sample_cols(centre)
    rows = len(data[cen_c])
    pts = [p for p in calls if p[0] == 'plot_time_series']
    if len(pts) != 1:
        obl.append((False, 'parameter panel for %s drawn once' % param))
        return
    xs, ys = pts[0][2], pts[0][3]
    obl.append((len(xs) == 2 and len(ys) == 2, '%s panel shows the values and the threshold line' % param))
    if len(xs) != 2 or len(ys) != 2:
        return
    vx, vy = ctx.tolist(xs[0]), ctx.tolist(ys[0])
    ty = list(ys[1])
    obl.append((len(ty) == 2 and ctx.conj([ctx.eq(ty[0], thresh), ctx.eq(ty[1], thresh)]), '%s threshold line at the given threshold' % param))
    obl.append((len(vx) == len(vy), '%s panel: one value per plotted time' % param))
    shown = []
    step = 1 if interp else 2
    for k in range(0, min(len(vx), len(vy)), step):
        if interp:
            s = vx[k] * fs
            hit = [r for r in range(rows) if data[cen_c][r] == s]
        else:
            s0, s1 = vx[k] * fs, vx[k + 1] * fs if k + 1 < len(vx) else None
            hit = [r for r in range(rows) if data[last_c][r] == s0 and data[next_c][r] == s1]
        obl.append((len(hit) == 1, '%s value drawn at the %s of a cycle of the table' % (param, 'centre' if interp else 'sides')))
        if len(hit) == 1:
            obl.append((ctx.eq(vy[k], data[param][hit[0]]), '%s panel shows that cycle\'s value' % param))
            if not interp and k + 1 < len(vy):
                obl.append((ctx.eq(vy[k + 1], data[param][hit[0]]), '%s panel shows that cycle\'s value' % param))
            shown.append(hit[0])
    for r in range(rows):
        if a <= data[last_c][r] and data[next_c][r] <= b - 1:
            obl.append((r in shown, '%s value of every cycle entirely inside the view is shown' % param))


# --------------------------------------------------------------------------- part 2: floating point

def run_fp(ctx, cfg):
    """One floating-point kernel x sampling rate x binade of sample indices (engine/fpkern.py)."""
    from engine import fpkern
    if ctx.mode == 'real':
        fpkern.replay(ctx, cfg)
    else:
        fpkern.check(ctx, cfg)
