"""C04 -- every shape feature equals its documented function of the row's cyclepoints and the
ORIGINAL (un-negated) signal, for peak- and trough-centred tables.

mode 'e2e': the real compute_shape_features on top of the real cyclepoint search (small signals);
mode 'cut': compute_cyclepoints is replaced by an arbitrary table satisfying the C01 invariant
(assume-guarantee: C01 proves what is assumed), so multi-row tables are reached.  Raw samples, the
amplitude envelope (and in 'cut' mode the cyclepoint positions) are solver variables."""
from engine.ctx import exc_label
from harness import pipe

FUNCTIONS = ['bycycle.features.shape.compute_shape_features', 'bycycle.features.shape.compute_durations',
             'bycycle.features.shape.compute_extrema_voltage', 'bycycle.features.shape.compute_symmetry',
             'bycycle.features.shape.compute_band_amp', 'bycycle.utils.dataframes.rename_extrema_df']
BOUNDS = {'quick': "e2e: padded length 8 (pad off/on), both centrings; cut: N <= 8 with 1..2 cycles and N = 9 with 3 cycles (every placement of cyclepoints obeying the C01 invariant), both centrings; int16 / uint8 / int64 signals (every value of the type) with N = 4, 1 cycle; long: compute_durations / compute_extrema_voltage / compute_symmetry on 1..2 cycles whose sample positions are unbounded integers (float and int16 signals)",
          'thorough': 'e2e: padded length <= 9; cut: N <= 10 with 1..3 cycles; long: 1..3 cycles'}
OUTSIDE = 'longer signals; IEEE rounding of differences / means / ratios'
STUBS = ['filter_signal / amp_by_time: arbitrary outputs of len(sig)', "cut mode: compute_cyclepoints -> arbitrary table under the C01 invariant"]
ASSUMPTIONS = ['cut mode assumes the C01 postcondition for compute_cyclepoints (proved by check C01)']


def configs(tier):
    q = tier == 'quick'
    out = []
    for L, ns in ((0, [8] if q else [8, 9]), (1, [6] if q else [6, 7])):
        for n in ns:
            for centre in ('peak', 'trough'):
                out.append({'mode': 'e2e', 'n': n, 'L': L, 'centre': centre})
    for rows, ns in ((1, [4, 6] if q else [4, 6, 8]), (2, [6, 8] if q else [6, 8, 9]), (3, [9] if q else [9, 10])):
        for n in ns:
            for centre in ('peak', 'trough'):
                out.append({'mode': 'cut', 'n': n, 'rows': rows, 'centre': centre})
    # recordings stored as machine integers (raw ADC counts): voltage differences must not wrap around
    for dt in ('int16', 'uint8', 'int'):
        for centre in ('peak', 'trough'):
            out.append({'mode': 'cut', 'n': 4, 'rows': 1, 'centre': centre, 'dtype': dt})
            if not q:
                out.append({'mode': 'cut', 'n': 6, 'rows': 2, 'centre': centre, 'dtype': dt})
    # the band-amplitude filter length is the function's own n_cycles, whatever the extrema search is given
    for centre in ('peak', 'trough'):
        for ncyc in ((4, 5), (3, 7)):
            out.append({'mode': 'cut', 'n': 4, 'rows': 1, 'centre': centre, 'ncyc': list(ncyc)})
    # a signal length with a prime factor > 11 (what FFT helpers like to pad): the amplitude is computed on the signal as it is
    out.append({'mode': 'cut', 'n': 13, 'rows': 1, 'centre': 'peak'})
    # compute_band_amp called directly (it is public): the mean amplitude must not take the signal's dtype
    for dt in ('float', 'int', 'int16'):
        out.append({'mode': 'band', 'n': 5, 'rows': 2, 'centre': 'peak', 'dtype': dt})
    # cycles of ANY length: sample positions are unbounded integers, the signal is known only at the extrema
    for rows in ((1, 2) if q else (1, 2, 3)):
        for dt in ('float', 'int16'):
            out.append({'mode': 'long', 'rows': rows, 'dtype': dt, 'n': 0, 'centre': 'peak'})
    return out


def cost(cfg):
    if cfg['mode'] in ('long', 'band'):
        return 5
    if cfg['mode'] == 'e2e':
        return 4.0 ** (cfg['n'] + 2 * ((cfg['L'] + 1) // 2))
    return 3.0 ** cfg['n'] * cfg['rows']


def split(cfg, tier):
    return 48 if cost(cfg) > 3000 else None


def shape_obligations(ctx, cols, centre, x, amp):
    """Reference definitions read on the original signal."""
    last_c, lastmid_c, m1_c, cen_c, m2_c, next_c = pipe.sample_cols(centre)
    rows = len(cols[cen_c])
    obl = []
    eq = ctx.eq
    for i in range(rows):
        last, lastmid, m1 = ctx.toint(cols[last_c][i]), ctx.toint(cols[lastmid_c][i]), ctx.toint(cols[m1_c][i])
        cen, m2, nxt = ctx.toint(cols[cen_c][i]), ctx.toint(cols[m2_c][i]), ctx.toint(cols[next_c][i])
        g = lambda c: cols[c][i]    # noqa: E731
        if centre == 'peak':
            t_rise, t_decay = cen - last, nxt - cen
            v_peak, v_trough = x[cen], x[last]
            v_rise, v_decay = x[cen] - x[last], x[cen] - x[nxt]
            t_peak, t_trough = m2 - m1, m1 - lastmid
        else:
            t_decay, t_rise = cen - last, nxt - cen
            v_trough, v_peak = x[cen], x[last]
            v_decay, v_rise = x[last] - x[cen], x[nxt] - x[cen]
            t_trough, t_peak = m2 - m1, m1 - lastmid
        obl += [
            (ctx.conj([g('period') == nxt - last, g('period') == g('time_rise') + g('time_decay')]),
             'period = next side - last side = time_rise + time_decay'),
            (ctx.conj([g('time_rise') == t_rise, g('time_decay') == t_decay]), 'time_rise / time_decay are the flank durations'),
            (ctx.conj([eq(g('volt_peak'), v_peak), eq(g('volt_trough'), v_trough)]), 'volt_peak / volt_trough are the signal at the extrema'),
            (ctx.conj([eq(g('volt_rise'), v_rise), eq(g('volt_decay'), v_decay)]), 'volt_rise / volt_decay are the voltage changes along the flanks'),
            (eq(g('volt_amp') * 2, v_rise + v_decay), 'volt_amp is the mean of volt_rise and volt_decay'),
            (ctx.conj([g('time_peak') == t_peak, g('time_trough') == t_trough]), 'time_peak / time_trough are the spans between midpoints'),
            (ctx.conj([eq(g('time_rdsym') * (nxt - last), t_rise), g('time_rdsym') > 0, g('time_rdsym') < 1]),
             'time_rdsym = time_rise / period, strictly inside (0, 1)'),
            (ctx.conj([eq(g('time_ptsym') * (t_peak + t_trough), t_peak), g('time_ptsym') >= 0, g('time_ptsym') <= 1]),
             'time_ptsym = time_peak / (time_peak + time_trough), inside [0, 1]'),
        ]
        if amp is not None:
            tot = sum(amp[last:nxt])
            obl.append((eq(g('band_amp') * (nxt - last), tot), 'band_amp is the mean band amplitude over [last side, next side)'))
    return obl


FEATS = ['period', 'time_peak', 'time_trough', 'volt_peak', 'volt_trough', 'time_decay', 'time_rise',
         'volt_decay', 'volt_rise', 'volt_amp', 'time_rdsym', 'time_ptsym', 'band_amp']


def run_long(ctx, cfg):
    """compute_durations / compute_extrema_voltage / compute_symmetry on a table whose sample positions are
    unbounded integers (C01 invariant only) and a signal known only at the extrema."""
    pd = ctx.pd
    sh = ctx.mod('bycycle.features.shape')
    rows, dt = cfg['rows'], cfg['dtype']
    k = 2 * rows + 1
    ps = [ctx.integer('e%d' % j) for j in range(k)]
    ctx.assume(ps[0] >= 0)
    for j in range(1, k):
        ctx.assume(ps[j] > ps[j - 1])
    ctx.assume(ps[-1] <= 40_000_000)          # only so that a witness can be materialised as a real array
    lm = ctx.integer('lm')
    ctx.assume(lm >= 0)
    ctx.assume(lm <= ps[0])
    mids = [lm]
    for j in range(k - 1):
        m = ctx.integer('m%d' % j)
        ctx.assume(m >= ps[j])
        ctx.assume(m <= ps[j + 1])
        mids.append(m)
    if dt == 'float':
        vs = [ctx.real('v%d' % j) for j in range(k)]
    else:
        lo, hi = ctx.INT_RANGE[dt]
        vs = [ctx.integer('v%d' % j) for j in range(k)]
        for v in vs:
            ctx.assume(v >= lo)
            ctx.assume(v <= hi)
    sig = ctx.lazy_signal(list(zip(ps, vs)), dtype=float if dt == 'float' else dt)
    table = {'sample_peak': [ps[2 * r + 1] for r in range(rows)],
             'sample_last_zerox_decay': [mids[2 * r] for r in range(rows)],
             'sample_zerox_decay': [mids[2 * r + 2] for r in range(rows)],
             'sample_zerox_rise': [mids[2 * r + 1] for r in range(rows)],
             'sample_last_trough': [ps[2 * r] for r in range(rows)],
             'sample_next_trough': [ps[2 * r + 2] for r in range(rows)]}
    df = pd.DataFrame({c: list(v) for c, v in table.items()})
    try:
        period, time_peak, time_trough = sh.compute_durations(df)
        volt_peak, volt_trough = sh.compute_extrema_voltage(df, sig)
        sym = sh.compute_symmetry(df, sig)
        sym2 = sh.compute_symmetry(df, sig, period=period, time_peak=time_peak, time_trough=time_trough)
    except Exception as e:
        ctx.fail(exc_label(e))
        return
    got = {'period': ctx.tolist(period), 'time_peak': ctx.tolist(time_peak), 'time_trough': ctx.tolist(time_trough),
           'volt_peak': ctx.tolist(volt_peak), 'volt_trough': ctx.tolist(volt_trough)}
    for c in ('time_decay', 'time_rise', 'volt_decay', 'volt_rise', 'volt_amp', 'time_rdsym', 'time_ptsym'):
        if not ctx.prove(c in sym and c in sym2, 'compute_symmetry returns ' + c):
            return
        got[c] = ctx.tolist(sym[c])
        got[c + '#2'] = ctx.tolist(sym2[c])
    ctx.obs('features', got)
    obl = []
    eq = ctx.eq
    for c, v in got.items():
        obl.append((len(v) == rows, 'one value per cycle (%s)' % c.split('#')[0]))
    if not ctx.prove_all(obl):
        return
    obl = []
    for i in range(rows):
        last, cen, nxt = ps[2 * i], ps[2 * i + 1], ps[2 * i + 2]
        lastmid, m1, m2 = mids[2 * i], mids[2 * i + 1], mids[2 * i + 2]
        x_last, x_cen, x_nxt = vs[2 * i], vs[2 * i + 1], vs[2 * i + 2]
        t_peak, t_trough = m2 - m1, m1 - lastmid
        g = lambda c: got[c][i]    # noqa: E731
        obl += [
            (ctx.conj([g('period') == nxt - last, g('time_peak') == t_peak, g('time_trough') == t_trough]),
             'period / time_peak / time_trough are the spans between side extrema / midpoints (cycles of any length)'),
            (ctx.conj([eq(g('volt_peak'), x_cen), eq(g('volt_trough'), x_last)]), 'volt_peak / volt_trough are the signal at the extrema'),
        ]
        for sfx in ('', '#2'):
            h = lambda c: got[c + sfx][i]    # noqa: E731
            obl += [
                (ctx.conj([h('time_rise') == cen - last, h('time_decay') == nxt - cen]), 'time_rise / time_decay are the flank durations (cycles of any length)'),
                (ctx.conj([eq(h('volt_rise'), x_cen - x_last), eq(h('volt_decay'), x_cen - x_nxt)]),
                 'volt_rise / volt_decay are the voltage changes along the flanks'),
                (eq(h('volt_amp') * 2, (x_cen - x_last) + (x_cen - x_nxt)), 'volt_amp is the mean of volt_rise and volt_decay'),
                (eq(h('time_rdsym'), (cen - last) / (nxt - last)), 'time_rdsym = time_rise / period (cycles of any length)'),
            ]
            # time_ptsym: NaN (0/0) when both midpoint spans are zero
            both0 = ctx.conj([t_peak == 0, t_trough == 0])
            if ctx.truth(both0):
                obl.append((ctx.isnan(h('time_ptsym')), 'time_ptsym undefined when both spans are empty'))
            else:
                obl.append((eq(h('time_ptsym'), t_peak / (t_peak + t_trough)), 'time_ptsym = time_peak / (time_peak + time_trough) (cycles of any length)'))
    ctx.prove_all(obl)


def run_band(ctx, cfg):
    np, pd = ctx.np, ctx.pd
    sh = ctx.mod('bycycle.features.shape')
    n, rows, dt = cfg['n'], cfg['rows'], cfg['dtype']
    if dt == 'float':
        x = [ctx.real('x%d' % i) for i in range(n)]
        sig = np.array(list(x), dtype=float)
    else:
        x, sig = ctx.int_signal(['x%d' % i for i in range(n)], dt)
    st = pipe.Stubs(ctx, 0)
    ts = [ctx.integer('t%d' % j) for j in range(rows + 1)]
    ctx.assume(ts[0] >= 0)
    for j in range(1, rows + 1):
        ctx.assume(ts[j] > ts[j - 1])
    ctx.assume(ts[-1] <= n - 1)
    tr = [ctx.toint(t) for t in ts]
    df = pd.DataFrame({'sample_last_trough': tr[:-1], 'sample_peak': tr[:-1], 'sample_next_trough': tr[1:]})
    try:
        got = sh.compute_band_amp(df, sig, 1000.0, (8.0, 12.0))
    except Exception as e:
        ctx.fail(exc_label(e))
        return
    got = ctx.tolist(got)
    ctx.obs('band_amp', got)
    if not ctx.prove(len(got) == rows and len(st.amp) == 1, 'one band amplitude per cycle from one amplitude computation'):
        return
    amp = st.amp[0]['out']
    ctx.prove_all([(ctx.eq(got[i] * (tr[i + 1] - tr[i]), sum(amp[tr[i]:tr[i + 1]])),
                    'band_amp is the mean band amplitude over [last side, next side) whatever the signal dtype') for i in range(rows)])


def run(ctx, cfg):
    if cfg['mode'] == 'long':
        return run_long(ctx, cfg)
    if cfg['mode'] == 'band':
        return run_band(ctx, cfg)
    np, pd = ctx.np, ctx.pd
    sh = ctx.mod('bycycle.features.shape')
    n, centre = cfg['n'], cfg['centre']
    if cfg.get('dtype'):
        x, sig = ctx.int_signal(['x%d' % i for i in range(n)], cfg['dtype'])
    else:
        x = [ctx.real('x%d' % i) for i in range(n)]
        sig = np.array(list(x), dtype=float)
    saved = sh.compute_cyclepoints
    if cfg['mode'] == 'e2e':
        L = cfg['L']
        st = pipe.Stubs(ctx, L, min_halfwaves=2)
        fek = {'pad': L > 0}
    else:
        rows = cfg['rows']
        st = pipe.Stubs(ctx, 0)
        k = 2 * rows + 1
        ps = [ctx.integer('e%d' % j) for j in range(k)]
        ctx.assume(ps[0] >= 0)
        for j in range(1, k):
            ctx.assume(ps[j] > ps[j - 1])
        ctx.assume(ps[-1] <= n - 1)
        pos = [ctx.toint(p) for p in ps]
        lastmid0 = ctx.integer('lm')
        ctx.assume(lastmid0 >= 0)
        ctx.assume(lastmid0 <= pos[0])
        mids = [ctx.toint(lastmid0)]
        for j in range(k - 1):
            m = ctx.integer('m%d' % j)
            ctx.assume(m >= pos[j])
            ctx.assume(m <= pos[j + 1])
            mids.append(ctx.toint(m))
        table = {'sample_peak': [pos[2 * r + 1] for r in range(rows)],
                 'sample_last_zerox_decay': [mids[2 * r] for r in range(rows)],
                 'sample_zerox_decay': [mids[2 * r + 2] for r in range(rows)],
                 'sample_zerox_rise': [mids[2 * r + 1] for r in range(rows)],
                 'sample_last_trough': [pos[2 * r] for r in range(rows)],
                 'sample_next_trough': [pos[2 * r + 2] for r in range(rows)]}
        seen = {}

        def fake_cp(s, fs, f_range, **kw):
            seen['sig'] = ctx.tolist(s)
            return pd.DataFrame({c: list(v) for c, v in table.items()})
        sh.compute_cyclepoints = fake_cp
        fek = None
    extra = {}
    band_ncyc = 3
    if cfg.get('ncyc'):
        band_ncyc, fek_n = cfg['ncyc']
        extra = {'n_cycles': band_ncyc}
        fek = {'filter_kwargs': {'n_cycles': fek_n}}
    try:
        df = sh.compute_shape_features(sig, 1000.0, (8.0, 12.0), center_extrema=centre, find_extrema_kwargs=fek, **extra)
    except Exception as e:
        if cfg['mode'] == 'cut':
            ctx.fail(exc_label(e))
        return      # e2e: whether a table must be returned is C01's business
    finally:
        sh.compute_cyclepoints = saved
    cols = pipe.table_cols(ctx, df)
    need = pipe.sample_cols(centre) + FEATS
    if not ctx.prove(all(c in cols for c in need), 'all documented shape / sample columns present'):
        return
    ctx.obs('table', {c: cols[c] for c in need})
    if cfg['mode'] == 'cut':
        sgn = 1 if centre == 'peak' else -1
        ctx.prove_all([(len(seen.get('sig', [])) == n, 'cyclepoints computed on the analysed signal')] +
                      [(a == sgn * b, 'cyclepoints computed on the signal (negated for trough centring)')
                       for a, b in zip(seen.get('sig', []), x)])
        # renamed sample columns carry the cut table unchanged
        ren = dict(zip(pipe.sample_cols('peak'), pipe.sample_cols(centre)))
        ctx.prove_all([(cols[ren[c]] == list(v), 'sample columns are the cyclepoints (renamed for the centring)')
                       for c, v in table.items()])
    if not ctx.prove(len(st.amp) == 1, 'band amplitude requested exactly once'):
        return
    call = st.amp[0]
    sgn = 1 if centre == 'peak' else -1
    ctx.prove_all([(len(call['sig']) == n, 'amplitude computed on the analysed signal'),
                   (call['fs'] == 1000.0 and tuple(call['f_range']) == (8.0, 12.0), 'amplitude computed with the caller\'s fs and f_range'),
                   (call['kw'] == {'n_cycles': band_ncyc} and call['remove_edges'] is False,
                    'band amplitude computed with the function\'s own filter length n_cycles (got %r), edges kept' % (call['kw'],))] +
                  [(a == sgn * b, 'amplitude computed on the analysed signal (up to sign)') for a, b in zip(call['sig'], x)])
    ctx.prove_all(shape_obligations(ctx, cols, centre, x, call['out']))
