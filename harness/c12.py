"""C12 -- for a 3-D array compute_features_3d / BycycleGroup.fit return a nested list in which
entry [i][j] (axis=(0,1)) is the analysis of signal [i, j] alone, row i (axis=0) the
flattened-epoch analysis of sigs[i], column j (axis=1) the flattened-epoch analysis of sigs[:, j];
per-slice option lists are applied at the same position, independently of n_jobs.

axis=(0,1): the inner compute_features_2d runs for real with compute_features cut to a token;
axis in {0, 1}: compute_features_2d is cut to a recorder returning one token per epoch.  Pool is the
adversarial model of C11.  All samples, n_jobs, the completion order and option values are solver
variables; extents (n0, n1) are enumerated including n0 != n1 and size-1 dimensions."""
import inspect
from engine.ctx import exc_label
from harness import c11

FUNCTIONS = ['bycycle.group.features.compute_features_3d', 'bycycle.group.features._proxy_3d',
             'bycycle.group.features.compute_features_2d', 'bycycle.group.utils.check_kwargs_shape',
             'bycycle.objs.fit.BycycleGroup.fit']
BOUNDS = {'quick': '(n0, n1) in {1,2,3}^2 with n0*n1 <= 6, 2 samples per signal, the three axis modes, shared / 1-D / 2-D option lists',
          'thorough': 'axis 0 / 1: (n0, n1) in {1..5}^2 with n0*n1 <= 15; axis (0,1): every (n0, n1) with n0*n1 <= 6 (extents up to 6, all 720 completion orders); 3 samples per signal'}
OUTSIDE = 'real OS-level scheduling; larger extents'
STUBS = c11.STUBS + ['axis 0 / 1: compute_features_2d -> recorder returning one token per epoch']
ASSUMPTIONS = ['equal arguments => equal analysis (C15)']


def configs(tier):
    q = tier == 'quick'
    out = []
    ext = (1, 2, 3) if q else (1, 2, 3, 4, 5, 6)
    for n0 in ext:
        for n1 in ext:
            if q and n0 * n1 > 6:
                continue
            for axis in ('0', '1', 'both'):
                if axis == 'both' and n0 * n1 > 6:
                    continue        # 9! completion orders: out of reach; 3x3 is covered for axis 0 / 1
                if axis != 'both' and (max(n0, n1) > 5 or n0 * n1 > 15):
                    continue
                for kw in (['dict', 'list'] + (['none'] if axis == 'both' else [])):
                    for api in ('func', 'group'):
                        if api == 'group' and kw != 'dict':
                            continue
                        out.append({'n0': n0, 'n1': n1, 'axis': axis, 'kw': kw, 'api': api, 'ns': 2 if q else 3})
    # column-major (Fortran-ordered) input, e.g. data loaded from .mat files
    for n0, n1 in ((2, 3), (3, 2), (2, 2)):
        for axis in ('both', '0', '1'):
            if n0 != n1 and axis != 'both' and q:
                continue
            out.append({'n0': n0, 'n1': n1, 'axis': axis, 'kw': 'list' if (axis == 'both' and n0 == n1) else 'dict',
                        'api': 'func', 'ns': 2, 'layout': 'F'})
    # the same group object fitted twice on arrays of different shape
    for n0, n1 in ((2, 2), (1, 3)):
        out.append({'n0': n0, 'n1': n1, 'axis': 'both', 'kw': 'dict', 'api': 'group', 'ns': 2, 'refit': True})
    return out


def cost(cfg):
    import math
    return math.factorial(cfg['n0'] * cfg['n1'] if cfg['axis'] == 'both' else max(cfg['n0'], cfg['n1']))


def split(cfg, tier):
    return 24 if cost(cfg) >= 120 else None


def run(ctx, cfg):
    np, pd = ctx.np, ctx.pd
    n0, n1, axis, kwk, api, ns = cfg['n0'], cfg['n1'], cfg['axis'], cfg['kw'], cfg['api'], cfg['ns']
    gf = ctx.mod('bycycle.group.features')
    ff = ctx.mod('bycycle.features.features')
    fit = ctx.mod('bycycle.objs.fit')
    vals = [[[ctx.real('x%d_%d_%d' % (i, j, k)) for k in range(ns)] for j in range(n1)] for i in range(n0)]
    arr = np.array([[list(s) for s in row] for row in vals], dtype=float)
    if cfg.get('layout') == 'F':
        arr = np.asfortranarray(arr)
    n_jobs = ctx.integer('n_jobs')
    ctx.assume(ctx.disj([n_jobs >= 1, n_jobs == -1]))
    cpu = ctx.integer('cpu_count')
    ctx.assume(cpu >= 1)
    ctx.env.CUR.cpu_count = cpu
    c11.install_pool(ctx)
    rs = ctx.truth(ctx.boolean('return_samples'))
    ax = {'0': 0, '1': 1, 'both': (0, 1)}[axis]
    # options
    if kwk == 'none':
        kwargs, opt_at = None, lambda i, j: None
    elif kwk == 'dict':
        o = c11.row_option(ctx, 0)
        kwargs, opt_at = o[0], lambda i, j: o
    elif axis == 'both':
        grid = [[c11.row_option(ctx, i * n1 + j) for j in range(n1)] for i in range(n0)]
        kwargs, opt_at = [[g[0] for g in row] for row in grid], lambda i, j: grid[i][j]
    else:
        ln = n0 if axis == '0' else n1
        lst = [c11.row_option(ctx, i) for i in range(ln)]
        kwargs, opt_at = [o for o, _ in lst], (lambda i, j: lst[i]) if axis == '0' else (lambda i, j: lst[j])
    calls = []
    saved = (gf.compute_features, gf.compute_features_2d)
    if axis == 'both':
        gf.compute_features = c11.recorder(ctx, ff.compute_features, calls)
    else:
        real_sig = inspect.signature(saved[1])

        def rec2d(*a, **k):
            args = dict(real_sig.bind(*a, **k).arguments)
            n_ep = len(args['sigs'])
            toks = [pd.DataFrame({'call': [len(calls)], 'epoch': [e]}) for e in range(n_ep)]
            calls.append((toks, args))
            return toks
        gf.compute_features_2d = rec2d
    try:
        if api == 'func':
            res = gf.compute_features_3d(arr, 500.0, (8.0, 12.0), compute_features_kwargs=kwargs, axis=ax,
                                         return_samples=rs, n_jobs=n_jobs)
        else:
            g_o, g_t = opt_at(0, 0)
            bg = fit.BycycleGroup(center_extrema=g_o['center_extrema'], burst_method=g_o['burst_method'],
                                  thresholds=dict(g_o['threshold_kwargs']), return_samples=rs)
            if cfg.get('refit'):
                other = np.array([[[float(10 * i + j)] * ns for j in range(3)] for i in range(2)], dtype=float)   # (2, 3, ns)
                ctx.env.CUR.pool_order = None          # first fit: plain submission order (it is not the subject)
                bg.fit(other, 500.0, (8.0, 12.0), axis=ax, n_jobs=1)
                c11.install_pool(ctx)
                del calls[:]
            bg.fit(arr, 500.0, (8.0, 12.0), axis=ax, n_jobs=n_jobs)
            res = bg.df_features
    except Exception as e:
        ctx.fail(exc_label(e))
        return
    finally:
        gf.compute_features, gf.compute_features_2d = saved
    ok = isinstance(res, list) and len(res) == n0 and all(isinstance(r, list) and len(r) == n1 for r in res)
    if not ctx.prove(ok, 'nested list with the array\'s first two dimensions'):
        return
    ctx.obs('shape', [len(res), len(res[0])])
    obl = []
    for i in range(n0):
        for j in range(n1):
            where = 'entry [%d][%d]' % (i, j)
            if axis == 'both':
                c11.check_token(ctx, calls, res[i][j], vals[i][j], opt_at(i, j), rs, obl, where)
                continue
            # axis 0: slice i = sigs[i], epoch j ; axis 1: slice j = sigs[:, j], epoch i
            sl, ep = (i, j) if axis == '0' else (j, i)
            hit = [(toks, a) for toks, a in calls if any(t is res[i][j] for t in toks)]
            if not hit:
                obl.append((False, where + ' is not an analysis produced for this call'))
                continue
            toks, a = hit[0]
            obl.append((toks[ep] is res[i][j] if ep < len(toks) else False, where + ' is the epoch at that position of its slice'))
            want = [vals[sl][e] for e in range(n1)] if axis == '0' else [vals[e][sl] for e in range(n0)]
            got = ctx.tolist(a['sigs'])
            obl.append((len(got) == len(want), where + ': slice has the epochs of that position'))
            for gr, wr in zip(got, want):
                obl += [(ctx.eq(u, v), where + ' belongs to the flattened-epoch analysis of the slice at that position') for u, v in zip(gr, wr)]
            obl.append((a.get('axis') is None and a.get('return_samples') is rs and a.get('fs') == 500.0
                        and tuple(a.get('f_range')) == (8.0, 12.0), where + ': slice analysed across flattened epochs with the caller\'s settings'))
            opt = opt_at(i, j)
            kw = a.get('compute_features_kwargs')
            if opt is None:
                obl.append((kw is None or kw == {}, where + ' analysed with default options'))
            else:
                tk = (kw or {}).get('threshold_kwargs') or {}
                obl.append((isinstance(kw, dict) and kw.get('center_extrema', 'peak') == opt[0].get('center_extrema', 'peak'), where + ' analysed with the options of that position'))
                obl.append((ctx.eq(tk['amp_fraction_threshold'], opt[1]) if 'amp_fraction_threshold' in tk else False,
                            where + ' analysed with the thresholds of that position'))
    if api == 'group':
        obl.append((len(bg.models) == n0 and all(len(r) == n1 for r in bg.models), 'models have the array\'s first two dimensions'))
        for i in range(n0):
            for j in range(n1):
                m = bg.models[i][j]
                obl.append((m.df_features is res[i][j], 'models mirror df_features position by position'))
                obl += [(ctx.eq(u, v), 'models hold the signal of their position') for u, v in zip(ctx.tolist(m.sig), vals[i][j])]
    ctx.prove_all(obl)
