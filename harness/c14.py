"""C14 -- Bycycle objects reproduce the functional API and hold no stale state.

Histories are covered by ONE INDUCTIVE STEP from an arbitrary object state rather than by
enumeration: (base) the constructor stores exactly what it is given, shorthand names expanded;
(step) every operation -- fit, recompute_edges(r), load, attribute access, BycycleGroup.fit --
started from symbolic settings leaves the option dictionaries value-equal, and fit calls
compute_features with exactly the stored settings and stores its result, so df_features is a
function of (current settings, sig, fs, f_range) only.  A few multi-step histories (fit / edit /
refit, fit / recompute_edges / refit, load / fit, fit A / fit B) are run for real as well and
compared with a freshly constructed object.  Threshold values, reductions, min_n_cycles, samples
and cyclepoint positions are solver variables."""
import inspect
from engine.ctx import exc_label
from harness import pipe, c09, c15

FUNCTIONS = ['bycycle.objs.fit.BycycleBase.__init__', 'bycycle.objs.fit.BycycleBase.reduce_thresholds',
             'bycycle.objs.fit.Bycycle.fit', 'bycycle.objs.fit.Bycycle.recompute_edges', 'bycycle.objs.fit.Bycycle.load',
             'bycycle.objs.fit.Bycycle.__getattr__', 'bycycle.objs.fit.BycycleGroup.fit',
             'bycycle.objs.fit.BycycleGroup.recompute_edges', 'bycycle.features.features.compute_features',
             'bycycle.burst.utils.recompute_edges']
BOUNDS = {'quick': 'constructor: every subset of shorthand/full threshold names x min_n_cycles present/absent x method; real-pipeline steps: 1..2 cycles on N <= 6 (cyclepoint search cut); recompute_edges on 3..4-row tables; group fit + group recompute_edges: 2x4, 3x4, 2x2x4, 2x3x4, 3x2x4 arrays',
          'thorough': 'real-pipeline steps: 1..3 cycles on N <= 8; recompute_edges on 3..5-row tables; group additionally 1x3x4, 3x1x4, 4x4'}
OUTSIDE = 'histories are covered through the one-step argument plus four explicit 2-3 step histories; larger signals'
STUBS = ['neurodsp stubs (same input -> same output); cut of compute_features / recompute_edges / compute_features_2d/3d where the *arguments* are the subject']
ASSUMPTIONS = ['invariant Inv: thresholds, burst_kwargs, find_extrema_kwargs hold exactly what constructor and user edits put there']

CYC = ['amp_fraction', 'amp_consistency', 'period_consistency', 'monotonicity']


def configs(tier):
    q = tier == 'quick'
    out = []
    for method in ('cycles', 'amp'):
        names = CYC if method == 'cycles' else ['burst_fraction']
        for mask in range(2 ** len(names)):
            for has_m in (True, False):
                out.append({'step': 'init', 'method': method, 'short': mask, 'has_m': has_m})
        out.append({'step': 'init_default', 'method': method})
        out.append({'step': 'fit_cut', 'method': method})
        for rows, n in ([(1, 4), (2, 6)] if q else [(1, 4), (2, 6), (3, 8)]):
            for centre in ('peak', 'trough'):
                if centre == 'trough' and rows > 1:
                    continue
                out.append({'step': 'fit_real', 'method': method, 'rows': rows, 'n': n, 'centre': centre})
        for hist in ('fit_edit_fit', 'load_fit', 'fitA_fitB') + (('fit_recompute_fit',) if method == 'cycles' else ()):
            out.append({'step': 'history', 'hist': hist, 'method': method, 'rows': 2, 'n': 6})
        # same with the default (empty) burst options: the object's own {} must not collect state either
        out.append({'step': 'history', 'hist': 'fit_edit_fit', 'method': method, 'rows': 2, 'n': 6, 'bk': 'default'})
    # the object must forward find_extrema_kwargs exactly as the functional API takes them (real cyclepoint search)
    for fek in ('n_seconds', 'boundary_only', 'n_cycles_nopad'):
        out.append({'step': 'fit_fek', 'fek': fek, 'n': 6 if fek != 'n_cycles_nopad' else 8})
    out.append({'step': 'recompute_cut'})
    for rows in ([3, 4] if q else [3, 4, 5]):
        out.append({'step': 'recompute_real', 'rows': rows})
    for shape in ((2, 4), (3, 4), (2, 2, 4), (2, 3, 4), (3, 2, 4)) + (() if q else ((1, 3, 4), (3, 1, 4), (4, 4))):
        out.append({'step': 'group_cut', 'dims': len(shape), 'shape': list(shape)})
    out.append({'step': 'getattr'})
    return out


def cost(cfg):
    if cfg['step'] == 'fit_fek':
        return 5000
    return 30 if cfg['step'] in ('fit_real', 'history', 'recompute_real') else 1


def split(cfg, tier):
    return 32 if cost(cfg) > 1 else None


def settings(ctx, method, short_mask=0, has_m=True, tag=''):
    """Symbolic thresholds (+ expected expanded form)."""
    names = CYC if method == 'cycles' else ['burst_fraction']
    thr, exp = {}, {}
    for j, nm in enumerate(names):
        v = ctx.real('%sthr_%s' % (tag, nm))
        ctx.assume(v >= 0)
        ctx.assume(v <= 1)
        key = nm if (short_mask >> j) & 1 else nm + '_threshold'
        thr[key] = v
        exp[nm + '_threshold'] = v
    if has_m:
        m = ctx.integer('%smin_n' % tag)
        ctx.assume(m >= 0)
        ctx.assume(m <= 3)
        thr['min_n_cycles'] = m
        exp['min_n_cycles'] = m
    return thr, exp


def dict_eq(ctx, got, want, what, obl):
    if not isinstance(got, dict) or set(got.keys()) != set(want.keys()):
        obl.append((False, '%s keys %s, expected %s' % (what, sorted(got.keys()) if isinstance(got, dict) else type(got).__name__, sorted(want.keys()))))
        return
    for k in want:
        a, b = got[k], want[k]
        if isinstance(b, dict):
            dict_eq(ctx, a, b, '%s[%r]' % (what, k), obl)
        elif isinstance(b, (tuple, str, type(None))) or isinstance(a, (tuple, str, type(None))):
            obl.append((a == b, '%s[%r] as stored' % (what, k)))
        else:
            obl.append((ctx.eq(a, b), '%s[%r] as stored' % (what, k)))


def install_cut_cyclepoints(ctx, rows, n, tables):
    """compute_cyclepoints -> table chosen by the analysed signal's identity (one per distinct signal)."""
    sh = ctx.mod('bycycle.features.shape')
    pd = ctx.pd
    saved = sh.compute_cyclepoints

    def fake(s, fs, fr, **kw):
        vals = ctx.tolist(s)
        for key, t in tables:
            if len(key) == len(vals) and ctx.truth(ctx.conj([ctx.disj([ctx.eq(a, b), ctx.eq(a, -b)]) for a, b in zip(vals, key)])):
                return pd.DataFrame({c: list(v) for c, v in t.items()})
        raise RuntimeError('harness: unknown signal handed to compute_cyclepoints')
    sh.compute_cyclepoints = fake
    return sh, saved


def tables_equal(ctx, t1, t2, label):
    c1, c2 = pipe.table_cols(ctx, t1), pipe.table_cols(ctx, t2)
    if not ctx.prove(list(c1.keys()) == list(c2.keys()) and len(t1) == len(t2), label + ' (shape)'):
        return False
    obl = []
    for c in c1:
        obl += [(c15._eqv(ctx, a, b), label) for a, b in zip(c1[c], c2[c])]
    return ctx.prove_all(obl)


def run(ctx, cfg):
    np, pd = ctx.np, ctx.pd
    fit = ctx.mod('bycycle.objs.fit')
    ff = ctx.mod('bycycle.features.features')
    step = cfg['step']
    if step in ('init', 'init_default'):
        method = cfg['method']
        if step == 'init_default':
            for cls in (fit.BycycleBase, fit.Bycycle, fit.BycycleGroup):
                try:
                    bm = cls(burst_method=method)
                except Exception as e:
                    ctx.fail(exc_label(e))
                    return
                want = ({'amp_fraction_threshold': 0., 'amp_consistency_threshold': .5, 'period_consistency_threshold': .5,
                         'monotonicity_threshold': .8, 'min_n_cycles': 3} if method == 'cycles'
                        else {'burst_fraction_threshold': 1, 'min_n_cycles': 3})
                obl = []
                dict_eq(ctx, bm.thresholds, want, 'default thresholds', obl)
                dict_eq(ctx, bm.find_extrema_kwargs, {'filter_kwargs': {'n_cycles': 3}}, 'default find_extrema_kwargs', obl)
                obl.append((bm.burst_kwargs == {} and bm.df_features is None and bm.center_extrema == 'peak'
                            and bm.return_samples is True, 'default settings'))
                ctx.prove_all(obl)
            return
        thr, exp = settings(ctx, method, cfg['short'], cfg['has_m'])
        bk = {'amp_threshes': (1, 2)} if method == 'amp' else {}
        fek = {'filter_kwargs': {'n_cycles': 4}, 'boundary': 1}
        for cls in (fit.Bycycle, fit.BycycleGroup):
            try:
                bm = cls(center_extrema='trough', burst_method=method, burst_kwargs=dict(bk), thresholds=dict(thr),
                         find_extrema_kwargs={'filter_kwargs': {'n_cycles': 4}, 'boundary': 1}, return_samples=False)
            except Exception as e:
                ctx.fail(exc_label(e))
                return
            obl = []
            dict_eq(ctx, bm.thresholds, exp, 'thresholds (shorthand names expanded)', obl)
            dict_eq(ctx, bm.burst_kwargs, bk, 'burst_kwargs', obl)
            dict_eq(ctx, bm.find_extrema_kwargs, fek, 'find_extrema_kwargs', obl)
            obl.append((bm.center_extrema == 'trough' and bm.burst_method == method and bm.return_samples is False
                        and bm.df_features is None, 'scalar settings stored'))
            ctx.prove_all(obl)
        return
    if step == 'fit_cut':
        method = cfg['method']
        thr, exp = settings(ctx, method, 0, True)
        bk = {'amp_threshes': (1, 2)} if method == 'amp' else {}
        fek = {'filter_kwargs': {'n_cycles': 4}, 'boundary': 1}
        bm = fit.Bycycle(center_extrema='trough', burst_method=method, burst_kwargs=bk, thresholds=thr,
                         find_extrema_kwargs=fek, return_samples=False)
        x = [ctx.real('x%d' % i) for i in range(4)]
        sig = np.array(list(x), dtype=float)
        fs = ctx.real('fs')
        ctx.assume(fs > 0)
        token = pd.DataFrame({'volt_amp': [1.0, 2.0]})
        seen = []
        real_sig = inspect.signature(ff.compute_features)
        saved = fit.compute_features

        def rec(*a, **k):
            seen.append(real_sig.bind(*a, **k).arguments)
            return token
        fit.compute_features = rec
        try:
            bm.fit(sig, fs, (8.0, 12.0))
        except Exception as e:
            ctx.fail(exc_label(e))
            return
        finally:
            fit.compute_features = saved
        if not ctx.prove(len(seen) == 1, 'fit analyses the signal exactly once'):
            return
        a = seen[0]
        obl = [(a.get('sig') is sig and bm.sig is sig, 'fit analyses and stores the given signal'),
               (a.get('fs') is fs and bm.fs is fs and a.get('f_range') == (8.0, 12.0) and bm.f_range == (8.0, 12.0), 'fit passes and stores fs and f_range'),
               (a.get('center_extrema') == 'trough' and a.get('burst_method') == method and a.get('return_samples') is False,
                'fit passes the stored scalar settings'),
               (bm.df_features is token, 'fit stores the table returned by compute_features')]
        dict_eq(ctx, a.get('threshold_kwargs'), exp, 'threshold_kwargs passed by fit', obl)
        dict_eq(ctx, a.get('burst_kwargs'), bk, 'burst_kwargs passed by fit', obl)
        dict_eq(ctx, a.get('find_extrema_kwargs'), fek, 'find_extrema_kwargs passed by fit', obl)
        dict_eq(ctx, bm.thresholds, exp, 'thresholds after fit', obl)
        ctx.prove_all(obl)
        # wrong dimensionality is rejected
        try:
            bm.fit(np.zeros((2, 3)), 500.0, (8.0, 12.0))
            ctx.fail('2-D signal accepted by Bycycle.fit')
        except ValueError:
            ctx.prove(True, '2-D signal rejected')
        except Exception as e:
            ctx.fail(exc_label(e))
        return
    if step in ('fit_real', 'history'):
        method, rows, n = cfg['method'], cfg['rows'], cfg['n']
        centre = cfg.get('centre', 'peak')
        x = [ctx.real('x%d' % i) for i in range(n)]
        tabA = c09.symbolic_table(ctx, rows, n)
        tables = [(x, tabA)]
        pipe.Stubs(ctx, 0, relate=('same',))
        thr, exp = settings(ctx, method, 1 if step == 'fit_real' else 0, True)
        bk = {'amp_threshes': (1, 2)} if method == 'amp' and cfg.get('bk') != 'default' else {}
        sig = np.array(list(x), dtype=float)
        sh, saved = install_cut_cyclepoints(ctx, rows, n, tables)
        try:
            bm = fit.Bycycle(center_extrema=centre, burst_method=method,
                             burst_kwargs=None if cfg.get('bk') == 'default' else dict(bk), thresholds=dict(thr))
            if step == 'fit_real':
                bm.fit(sig, 500.0, (8.0, 12.0))
                ref = ff.compute_features(sig, 500.0, (8.0, 12.0), center_extrema=centre, burst_method=method,
                                          burst_kwargs=dict(bk), threshold_kwargs=dict(exp),
                                          find_extrema_kwargs={'filter_kwargs': {'n_cycles': 3}}, return_samples=True)
                tables_equal(ctx, bm.df_features, ref, 'df_features equals compute_features with the same settings')
                obl = []
                dict_eq(ctx, bm.thresholds, exp, 'thresholds after fit', obl)
                dict_eq(ctx, bm.burst_kwargs, bk, 'burst_kwargs after fit', obl)
                dict_eq(ctx, bm.find_extrema_kwargs, {'filter_kwargs': {'n_cycles': 3}}, 'find_extrema_kwargs after fit', obl)
                for c in list(bm.df_features.columns)[:4]:
                    got = ctx.tolist(getattr(bm, c))
                    obl += [(c15._eqv(ctx, u, v), 'attribute access returns the table column') for u, v in zip(got, ctx.tolist(bm.df_features[c]))]
                ctx.prove_all(obl)
                try:
                    bm.no_such_column
                    ctx.fail('unknown attribute does not raise AttributeError')
                except AttributeError:
                    pass
                return
            hist = cfg['hist']
            cur = dict(exp)
            final_sig = sig

            def touch():
                # read every column as an attribute (what a user does between two steps of a history)
                for c in list(bm.df_features.columns):
                    getattr(bm, c)
            if hist == 'fit_edit_fit':
                bm.fit(sig, 500.0, (8.0, 12.0))
                touch()
                m2 = ctx.integer('m_new')
                ctx.assume(m2 >= 0)
                ctx.assume(m2 <= 3)
                t2 = ctx.real('t_new')
                ctx.assume(t2 >= 0)
                ctx.assume(t2 <= 1)
                key = 'monotonicity_threshold' if method == 'cycles' else 'burst_fraction_threshold'
                bm.thresholds['min_n_cycles'] = m2
                bm.thresholds[key] = t2
                cur['min_n_cycles'] = m2
                cur[key] = t2
                bm.fit(sig, 500.0, (8.0, 12.0))
            elif hist == 'fit_recompute_fit':
                bm.fit(sig, 500.0, (8.0, 12.0))
                touch()
                r = ctx.real('r')
                ctx.assume(r >= 0)
                ctx.assume(r <= 1)
                try:
                    bm.recompute_edges(r)
                    touch()
                except ValueError:
                    pass        # lowered threshold left [0, 1]: rejected, state must still be clean
                bm.fit(sig, 500.0, (8.0, 12.0))
            elif hist == 'load_fit':
                bm.load(pd.DataFrame({'volt_amp': [1.0]}), np.zeros(3), 100.0, (1.0, 2.0))
                touch()
                bm.fit(sig, 500.0, (8.0, 12.0))
            elif hist == 'fitA_fitB':
                y = [ctx.real('y%d' % i) for i in range(n)]
                ctx.assume(ctx.disj([ctx.neg(ctx.eq(a, b)) for a, b in zip(x, y)]))
                ctx.assume(ctx.disj([ctx.neg(ctx.eq(a, -b)) for a, b in zip(x, y)]))
                tables.append((y, tabA))     # same arbitrary table: what matters is which signal is analysed
                sigB = np.array(list(y), dtype=float)
                bm.fit(sig, 500.0, (8.0, 12.0))
                touch()
                bm.fit(sigB, 500.0, (8.0, 12.0))
                final_sig = sigB
            fresh = fit.Bycycle(center_extrema=centre, burst_method=method, burst_kwargs=dict(bk), thresholds=dict(cur))
            fresh.fit(final_sig, 500.0, (8.0, 12.0))
            tables_equal(ctx, bm.df_features, fresh.df_features, 'a fit after any history equals the fit of a fresh object with the current settings')
            obl = []
            dict_eq(ctx, bm.thresholds, cur, 'thresholds hold exactly the current settings', obl)
            dict_eq(ctx, bm.burst_kwargs, bk, 'burst_kwargs hold exactly the current settings', obl)
            for c in list(bm.df_features.columns):
                got, want = ctx.tolist(getattr(bm, c)), ctx.tolist(bm.df_features[c])
                obl.append((len(got) == len(want), 'attribute access returns the current table column'))
                obl += [(c15._eqv(ctx, u, v), 'attribute access returns the current table column (not one read earlier in the history)')
                        for u, v in zip(got, want)]
            ctx.prove_all(obl)
        except Exception as e:
            ctx.fail(exc_label(e))
        finally:
            sh.compute_cyclepoints = saved
        return
    if step == 'fit_fek':
        n = cfg['n']
        fek = {'n_seconds': {'filter_kwargs': {'n_seconds': 0.5}}, 'boundary_only': {'boundary': 0},
               'n_cycles_nopad': {'filter_kwargs': {'n_cycles': 4}, 'pad': False}}[cfg['fek']]
        L = 0 if cfg['fek'] == 'n_cycles_nopad' else 1
        x = [ctx.real('x%d' % i) for i in range(n)]
        pipe.Stubs(ctx, L, relate=('same',), min_halfwaves=2)
        thr = {'min_n_cycles': 1}
        import copy
        ref, ref_exc = None, None
        try:
            ref = ff.compute_features(np.array(list(x), dtype=float), 500.0, (8.0, 12.0), threshold_kwargs=dict(thr),
                                      find_extrema_kwargs=copy.deepcopy(fek))
        except Exception as e:
            ref_exc = e
        bm = fit.Bycycle(thresholds=dict(thr), find_extrema_kwargs=copy.deepcopy(fek))
        try:
            bm.fit(np.array(list(x), dtype=float), 500.0, (8.0, 12.0))
        except Exception as e:
            if ref_exc is None:
                ctx.fail('Bycycle.fit raises where compute_features with the same settings returns a table: ' + exc_label(e))
            else:
                ctx.prove(type(e) is type(ref_exc), 'Bycycle.fit fails like compute_features with the same settings')
            return
        if ref_exc is not None:
            ctx.fail('Bycycle.fit returns a table where compute_features with the same settings raises')
            return
        tables_equal(ctx, bm.df_features, ref, 'df_features equals compute_features with the same find_extrema_kwargs')
        return
    if step == 'recompute_cut':
        thr, exp = settings(ctx, 'cycles', 0, True)
        bm = fit.Bycycle(thresholds=thr)
        token_in = pd.DataFrame({'volt_amp': [1.0]})
        token_out = pd.DataFrame({'volt_amp': [2.0]})
        bm.load(token_in, np.zeros(3), 500.0, (8.0, 12.0))
        r = ctx.real('r')
        seen = []
        saved = fit.rc_edges

        def rec(df, th, *a, **k):
            seen.append((df, th, a, k))
            return token_out
        fit.rc_edges = rec
        try:
            bm.recompute_edges(r)
            bm.recompute_edges()
        except Exception as e:
            ctx.fail(exc_label(e))
            return
        finally:
            fit.rc_edges = saved
        if not ctx.prove(len(seen) == 2 and seen[0][0] is token_in and bm.df_features is token_out,
                         'recompute_edges re-labels the stored table and stores the result'):
            return
        obl = []
        dict_eq(ctx, seen[0][1], {k: (v - r if k.endswith('_threshold') else v) for k, v in exp.items()},
                'thresholds handed to the functional edge recomputation (every *_threshold lowered by r)', obl)
        dict_eq(ctx, seen[1][1], exp, 'thresholds handed over without a reduction', obl)
        dict_eq(ctx, bm.thresholds, exp, 'stored thresholds untouched by recompute_edges', obl)
        ctx.prove_all(obl)
        return
    if step == 'recompute_real':
        from harness import c06
        rows = cfg['rows']
        bc = ctx.mod('bycycle.burst.cycle')
        bu = ctx.mod('bycycle.burst.utils')
        cells = c06.make_table(ctx, rows)
        for c in ('amp_consistency', 'period_consistency'):
            cells[c][0] = float('nan')
            cells[c][-1] = float('nan')
        data = {c: list(v) for c, v in cells.items()}
        data['volt_rise'] = [ctx.real('vr%d' % i) for i in range(rows)]
        data['volt_decay'] = [ctx.real('vd%d' % i) for i in range(rows)]
        for i in range(rows):
            ctx.assume(data['volt_rise'][i] > 0)
            ctx.assume(data['volt_decay'][i] > 0)
        data['period'] = [4 + i for i in range(rows)]
        data['sample_peak'] = [10 * i + 5 for i in range(rows)]
        thr = {c + '_threshold': 0.5 for c in c06.COLS}
        thr['min_n_cycles'] = 1
        r = ctx.real('r')
        ctx.assume(r >= 0)
        ctx.assume(r <= 0.5)
        df = bc.detect_bursts_cycles(pd.DataFrame(data), **thr)
        bm = fit.Bycycle(thresholds=dict(thr))
        bm.load(df, np.zeros(3), 500.0, (8.0, 12.0))
        for c in list(df.columns):
            getattr(bm, c)
        try:
            bm.recompute_edges(r)
            lowered = {k: (v - r if k.endswith('_threshold') else v) for k, v in thr.items()}
            ref = bu.recompute_edges(df, lowered)
        except Exception as e:
            ctx.fail(exc_label(e))
            return
        tables_equal(ctx, bm.df_features, ref, 'recompute_edges(r) equals the functional recomputation with every *_threshold lowered by r')
        obl = []
        dict_eq(ctx, bm.thresholds, thr, 'stored thresholds untouched', obl)
        for c in list(bm.df_features.columns):
            obl += [(c15._eqv(ctx, u, v), 'attribute access returns the recomputed table column (not one read before the recomputation)')
                    for u, v in zip(ctx.tolist(getattr(bm, c)), ctx.tolist(bm.df_features[c]))]
        ctx.prove_all(obl)
        return
    if step == 'group_cut':
        dims = cfg['dims']
        thr, exp = settings(ctx, 'cycles', 0, True)
        bg = fit.BycycleGroup(center_extrema='trough', thresholds=thr, return_samples=False)
        shape = tuple(cfg['shape'])
        n0 = shape[0]
        n1 = shape[1] if dims == 3 else None
        cnt = 1
        for d in shape:
            cnt *= d
        vals = [ctx.real('x%d' % i) for i in range(cnt)]
        arr = np.array(list(vals), dtype=float).reshape(*shape)
        if dims == 2:
            result = [pd.DataFrame({'id': [i]}) for i in range(n0)]
        else:
            result = [[pd.DataFrame({'id': [i * n1 + j]}) for j in range(n1)] for i in range(n0)]
        seen = []
        name = 'compute_features_2d' if dims == 2 else 'compute_features_3d'
        gmod = ctx.mod('bycycle.group.features')
        real_sig = inspect.signature(getattr(gmod, name))
        saved = getattr(fit, name)

        def rec(*a, **k):
            seen.append(real_sig.bind(*a, **k).arguments)
            return result
        setattr(fit, name, rec)
        try:
            bg.fit(arr, 500.0, (8.0, 12.0), axis=0, n_jobs=2)
        except Exception as e:
            ctx.fail(exc_label(e))
            return
        finally:
            setattr(fit, name, saved)
        if not ctx.prove(len(seen) == 1 and seen[0].get('sigs') is arr, 'group fit analyses the given array once'):
            return
        a = seen[0]
        kw = a.get('compute_features_kwargs') or {}
        obl = [(a.get('fs') == 500.0 and a.get('f_range') == (8.0, 12.0) and a.get('axis') == 0 and a.get('n_jobs') == 2
                and a.get('return_samples') is False, 'group fit passes fs, f_range, axis, n_jobs, return_samples'),
               (kw.get('center_extrema') == 'trough' and kw.get('burst_method') == 'cycles', 'group fit passes the stored scalar settings'),
               (bg.df_features is result and len(bg) == n0, 'group fit stores the returned list')]
        dict_eq(ctx, kw.get('threshold_kwargs'), exp, 'threshold_kwargs passed by group fit', obl)
        if not ctx.prove_all(obl):
            return

        def positions():
            return [(i,) for i in range(n0)] if dims == 2 else [(i, j) for i in range(n0) for j in range(n1)]

        def at(nested, pos):
            for p in pos:
                nested = nested[p]
            return nested

        def mirror(label):
            obl = [(len(bg.models) == n0 and (dims == 2 or all(len(r) == n1 for r in bg.models)), 'models have the shape of df_features')]
            if not ctx.prove_all(obl):
                return False
            for pos in positions():
                m = at(bg, pos)
                obl.append((m.df_features is at(bg.df_features, pos) and at(bg.models, pos) is m, 'models mirror df_features position by position' + label))
                obl += [(ctx.eq(u, v), 'models hold the signal of their position' + label) for u, v in zip(ctx.tolist(m.sig), ctx.tolist(at(arr, pos)))]
                obl.append((m.thresholds is bg.thresholds or m.thresholds == bg.thresholds, 'models carry the group settings'))
            obl.append(([m for m in bg] == list(bg.models), 'iteration yields the models in order'))
            return ctx.prove_all(obl)
        if not mirror(''):
            return
        # group edge recomputation: every model, once, with every *_threshold lowered by r
        r = ctx.real('r')
        calls = []
        saved_rc = fit.rc_edges

        def rec_rc(df, th, *a_, **k_):
            tok = pd.DataFrame({'id': [100 + len(calls)]})
            calls.append((df, th, tok))
            return tok
        fit.rc_edges = rec_rc
        before = {pos: at(bg.df_features, pos) for pos in positions()}
        try:
            bg.recompute_edges(r)
        except Exception as e:
            ctx.fail('group recompute_edges: ' + exc_label(e))
            return
        finally:
            fit.rc_edges = saved_rc
        obl = [(len(calls) == len(before), 'group recompute_edges recomputes every model exactly once')]
        lowered = {k: (v - r if k.endswith('_threshold') else v) for k, v in exp.items()}
        for pos in positions():
            mine = [c for c in calls if c[0] is before[pos]]
            obl.append((len(mine) == 1, 'group recompute_edges recomputes the table of every position exactly once'))
            if len(mine) == 1:
                obl.append((at(bg.models, pos).df_features is mine[0][2], 'each model stores the recomputation of its own table'))
                dict_eq(ctx, mine[0][1], lowered, 'thresholds handed to the edge recomputation (every *_threshold lowered by r)', obl)
        dict_eq(ctx, bg.thresholds, exp, 'group thresholds untouched by recompute_edges', obl)
        if not ctx.prove_all(obl):
            return
        if not mirror(' after recompute_edges'):
            return
        try:
            bg.fit(np.zeros(4), 500.0, (8.0, 12.0))
            ctx.fail('1-D array accepted by BycycleGroup.fit')
        except ValueError:
            pass
        except Exception as e:
            ctx.fail(exc_label(e))
        return
    if step == 'getattr':
        bm = fit.Bycycle(thresholds={'min_n_cycles': 3})
        try:
            bm.volt_amp
            ctx.fail('attribute access before fit does not raise AttributeError')
        except AttributeError:
            ctx.prove(True, 'attribute access before fit raises AttributeError')
        return
    raise RuntimeError(step)
