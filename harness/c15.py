"""C15 -- the analysis functions are pure: they never modify the caller's signal array, option
dictionaries or input tables, and a repeated call on the same argument objects returns an
identical table.

Every listed function is called for real on tracked arguments (symbolic samples / cells /
thresholds); a deep structural snapshot of every argument object taken before the call must be
value-equal afterwards (frame condition, solver-proved for symbolic cells) and a second call on the
very same objects must give a provably equal result (repeatability).  Together: one inductive step
showing that any call sequence sharing argument objects behaves like isolated calls."""
from engine.ctx import exc_label
from harness import pipe, c09, c18

FUNCTIONS = ['bycycle.features.features.compute_features', 'bycycle.features.shape.compute_shape_features',
             'bycycle.features.cyclepoints.compute_cyclepoints', 'bycycle.cyclepoints.extrema.find_extrema',
             'bycycle.cyclepoints.zerox.find_zerox', 'bycycle.features.burst.compute_burst_features',
             'bycycle.features.burst.compute_amp_fraction', 'bycycle.features.burst.compute_amp_consistency',
             'bycycle.features.burst.compute_period_consistency', 'bycycle.features.burst.compute_monotonicity',
             'bycycle.features.burst.compute_burst_fraction', 'bycycle.burst.utils.recompute_edges',
             'bycycle.utils.dataframes.limit_df', 'bycycle.utils.dataframes.epoch_df',
             'bycycle.utils.dataframes.drop_samples_df', 'bycycle.group.features.compute_features_2d',
             'bycycle.group.features.compute_features_3d']
BOUNDS = {'quick': 'compute_features level: 1..2 cycles on N <= 6 (cyclepoint search cut), both burst methods, every presence combination of min_n_cycles / amp_threshes in the option dicts; cyclepoint level: padded length 7; table utilities: 1..3 rows; group functions: 2x(2)x4 arrays',
          'thorough': 'compute_features level: 1..3 cycles on N <= 8; cyclepoint level: padded length 8'}
OUTSIDE = 'larger inputs; the plotting functions (their frame conditions are asserted in the C20 harness); detect_bursts_* (documented to return their input table with a label column; not in the statement\'s list)'
STUBS = ['neurodsp stubs as in C01; compute_features cut to a token for the group functions']
ASSUMPTIONS = ['models distinguish views from copies and track in-place writes (validated by conformance and witness replay)']


def configs(tier):
    q = tier == 'quick'
    out = []
    for method in ('cycles', 'amp'):
        for rows, n in ([(1, 4), (2, 6)] if q else [(1, 4), (2, 6), (3, 8)]):
            variants = ['plain'] if method == 'cycles' else ['plain', 'thr_m', 'burst_m', 'both_m', 'burst_amp']
            for v in variants:
                for centre in ('peak', 'trough'):
                    if centre == 'trough' and (rows > 1 or v not in ('plain', 'burst_m')):
                        continue
                    out.append({'fn': 'compute_features', 'method': method, 'rows': rows, 'n': n, 'variant': v, 'centre': centre})
    for fn in ('compute_shape_features', 'compute_cyclepoints', 'find_extrema'):
        for L in (0, 1):
            for fk in ('n_cycles', 'empty'):
                out.append({'fn': fn, 'n': 7 - 2 * L if q else 8 - 2 * L, 'L': L, 'fk': fk})
    out.append({'fn': 'find_zerox', 'n': 6})
    for v in ('given', 'plus_m'):
        out.append({'fn': 'compute_burst_features_amp', 'rows': 2, 'n': 6, 'variant': v})
    out.append({'fn': 'compute_burst_features_cycles', 'rows': 3, 'n': 7 if q else 8})
    out.append({'fn': 'compute_burst_fraction', 'rows': 2, 'n': 6})
    out.append({'fn': 'compute_burst_fraction', 'rows': 2, 'n': 6, 'fk': 'detector_options'})
    out.append({'fn': 'compute_features', 'method': 'amp', 'rows': 1, 'n': 4, 'variant': 'nested_fk', 'centre': 'peak'})
    for L in (0, 1):
        out.append({'fn': 'compute_shape_features', 'n': 7 - 2 * L if q else 8 - 2 * L, 'L': L, 'fk': 'n_cycles', 'centre': 'trough'})
    for rows in (3, 4):
        out.append({'fn': 'recompute_edges', 'rows': rows})
    for rows in (1, 2, 3):
        for centre in ('peak', 'trough'):
            out.append({'fn': 'limit_df', 'rows': rows, 'centre': centre})
            out.append({'fn': 'epoch_df', 'rows': rows, 'centre': centre})
            out.append({'fn': 'drop_samples_df', 'rows': rows, 'centre': centre})
    for axis in (0, None):
        for kw in ('none', 'dict', 'list'):
            out.append({'fn': 'compute_features_2d', 'axis': axis, 'kw': kw})
    for axis in (0, 1, 'both'):
        for kw in ('dict', 'list'):
            out.append({'fn': 'compute_features_3d', 'axis': axis, 'kw': kw})
    return out


def cost(cfg):
    if cfg['fn'] == 'compute_burst_features_cycles':
        return 1000
    if cfg['fn'] == 'compute_features' and cfg['rows'] >= 2:
        return 40
    return 50 if cfg['fn'] in ('compute_shape_features', 'compute_cyclepoints', 'find_extrema') else 1


def split(cfg, tier):
    return 32 if cost(cfg) > 10 else None


# --------------------------------------------------------------------------- snapshots

def snap(ctx, obj):
    """Deep structural snapshot (element objects are kept by reference: symbolic values are immutable)."""
    np, pd = ctx.np, ctx.pd
    if isinstance(obj, dict):
        return ('dict', [(k, snap(ctx, v)) for k, v in obj.items()])
    if isinstance(obj, (list, tuple)):
        return (type(obj).__name__, [snap(ctx, v) for v in obj])
    if isinstance(obj, pd.DataFrame):
        return ('frame', list(obj.columns), list(obj.index), {c: ctx.tolist(obj[c]) for c in obj.columns})
    if isinstance(obj, np.ndarray):
        return ('array', tuple(obj.shape), _flat(ctx, obj))
    return ('val', obj)


def _flat(ctx, a):
    out = ctx.tolist(a)
    while out and isinstance(out[0], list):
        out = [v for row in out for v in row]
    return out


def unchanged(ctx, s, obj, what, obl):
    np, pd = ctx.np, ctx.pd
    kind = s[0]
    label = '%s not modified by the call' % what
    if kind == 'dict':
        if not isinstance(obj, dict) or list(obj.keys()) != [k for k, _ in s[1]]:
            obl.append((False, label + ' (keys: %s -> %s)' % ([k for k, _ in s[1]], list(obj.keys()) if isinstance(obj, dict) else type(obj).__name__)))
            return
        for k, sv in s[1]:
            unchanged(ctx, sv, obj[k], '%s[%r]' % (what, k), obl)
    elif kind in ('list', 'tuple'):
        if type(obj).__name__ != kind or len(obj) != len(s[1]):
            obl.append((False, label))
            return
        for i, sv in enumerate(s[1]):
            unchanged(ctx, sv, obj[i], '%s[%d]' % (what, i), obl)
    elif kind == 'frame':
        if not isinstance(obj, pd.DataFrame) or list(obj.columns) != s[1] or list(obj.index) != s[2]:
            obl.append((False, label + ' (columns / index)'))
            return
        for c in s[1]:
            now = ctx.tolist(obj[c])
            if len(now) != len(s[3][c]):
                obl.append((False, label))
                return
            obl += [(ctx.eq(a, b), label) for a, b in zip(now, s[3][c])]
    elif kind == 'array':
        if not isinstance(obj, np.ndarray) or tuple(obj.shape) != s[1]:
            obl.append((False, label + ' (shape)'))
            return
        obl += [(_eqv(ctx, a, b), label) for a, b in zip(_flat(ctx, obj), s[2])]
    else:
        obl.append((_eqv(ctx, obj, s[1]), label))


def _eqv(ctx, a, b):
    if isinstance(a, (str, type(None), tuple, dict)) or isinstance(b, (str, type(None), tuple, dict)):
        return a == b if not isinstance(a, dict) else a is b or a == b
    return ctx.eq(a, b)


def same_result(ctx, r1, r2, obl):
    pd = ctx.pd
    label = 'repeated call on the same argument objects returns an identical result'
    if isinstance(r1, pd.DataFrame):
        if not isinstance(r2, pd.DataFrame) or list(r1.columns) != list(r2.columns) or len(r1) != len(r2):
            obl.append((False, label))
            return
        for c in r1.columns:
            obl += [(_eqv(ctx, a, b), label) for a, b in zip(ctx.tolist(r1[c]), ctx.tolist(r2[c]))]
    elif isinstance(r1, (list, tuple)):
        if not isinstance(r2, (list, tuple)) or len(r1) != len(r2):
            obl.append((False, label))
            return
        for a, b in zip(r1, r2):
            same_result(ctx, a, b, obl)
    elif isinstance(r1, ctx.np.ndarray):
        a, b = _flat(ctx, r1), _flat(ctx, r2)
        obl.append((len(a) == len(b), label))
        obl += [(_eqv(ctx, u, v), label) for u, v in zip(a, b)]
    elif isinstance(r1, dict):
        obl.append((r1 == r2 or r1 is r2, label))
    else:
        obl.append((_eqv(ctx, r1, r2), label))


def check_call(ctx, fn, args, kwargs, names, may_raise=False):
    """Call twice on the same objects; frame + repeatability obligations.  ``may_raise``: the call
    is allowed to reject the input (too few oscillations: C01's business); the arguments must be
    untouched all the same."""
    objs = list(args) + list(kwargs.values())
    snaps = [snap(ctx, o) for o in objs]
    try:
        r1 = fn(*args, **kwargs)
    except Exception as e:
        if not may_raise:
            ctx.fail(exc_label(e))
            return None
        obl = []
        for s, o, nm in zip(snaps, objs, names):
            unchanged(ctx, s, o, nm, obl)
        ctx.prove_all(obl)
        return None
    obl = []
    for s, o, nm in zip(snaps, objs, names):
        unchanged(ctx, s, o, nm, obl)
    if not ctx.prove_all(obl):
        return r1
    try:
        r2 = fn(*args, **kwargs)
    except Exception as e:
        ctx.fail('second call: ' + exc_label(e))
        return r1
    obl = []
    same_result(ctx, r1, r2, obl)
    for s, o, nm in zip(snaps, objs, names):
        unchanged(ctx, s, o, nm, obl)
    ctx.prove_all(obl)
    return r1


# --------------------------------------------------------------------------- harness

def run(ctx, cfg):
    np, pd = ctx.np, ctx.pd
    fn = cfg['fn']
    if fn == 'compute_features':
        rows, n, method, variant, centre = cfg['rows'], cfg['n'], cfg['method'], cfg['variant'], cfg['centre']
        ff = ctx.mod('bycycle.features.features')
        sh = ctx.mod('bycycle.features.shape')
        x = [ctx.real('x%d' % i) for i in range(n)]
        table = c09.symbolic_table(ctx, rows, n)
        pipe.Stubs(ctx, 0, relate=('same',))
        saved = sh.compute_cyclepoints
        sh.compute_cyclepoints = lambda s, fs, fr, **kw: pd.DataFrame({c: list(v) for c, v in table.items()})
        thr = dict(c09.thresholds_for(method))
        m1, m2 = ctx.integer('mn_thr'), ctx.integer('mn_burst')
        ctx.assume(m1 >= 0)
        ctx.assume(m2 >= 0)
        bk = None
        if method == 'amp':
            bk = {}
            if variant in ('thr_m', 'both_m'):
                thr['min_n_cycles'] = m1
            else:
                thr.pop('min_n_cycles', None)
            if variant in ('burst_m', 'both_m'):
                bk['min_n_cycles'] = m2
            if variant == 'burst_amp':
                bk['amp_threshes'] = (0.5, 1.5)
            if variant == 'nested_fk':
                bk['filter_kwargs'] = {'n_cycles': 3, 'magnitude_type': 'amplitude', 'avg_type': 'median'}
        fek = {'filter_kwargs': {'n_cycles': 3}, 'boundary': 0}
        sig = np.array(list(x), dtype=float)
        try:
            check_call(ctx, ff.compute_features, [sig, 500.0, (8.0, 12.0)],
                       dict(center_extrema=centre, burst_method=method, burst_kwargs=bk, threshold_kwargs=thr,
                            find_extrema_kwargs=fek),
                       ['sig', 'fs', 'f_range', 'center_extrema', 'burst_method', 'burst_kwargs', 'threshold_kwargs',
                        'find_extrema_kwargs'])
        finally:
            sh.compute_cyclepoints = saved
        return
    if fn in ('compute_shape_features', 'compute_cyclepoints', 'find_extrema'):
        n, L = cfg['n'], cfg['L']
        x = [ctx.real('x%d' % i) for i in range(n)]
        sig = np.array(list(x), dtype=float)
        pipe.Stubs(ctx, L, relate=('same',), min_halfwaves=2)
        fk = {'n_cycles': 3} if cfg.get('fk') != 'empty' else {}
        if fn == 'compute_shape_features':
            f = ctx.mod('bycycle.features.shape').compute_shape_features
            fek = {'filter_kwargs': fk, 'pad': L > 0}
            check_call(ctx, f, [sig, 500.0, (8.0, 12.0)], dict(center_extrema=cfg.get('centre', 'peak'), find_extrema_kwargs=fek),
                       ['sig', 'fs', 'f_range', 'center_extrema', 'find_extrema_kwargs'], may_raise=True)
        elif fn == 'compute_cyclepoints':
            f = ctx.mod('bycycle.features.cyclepoints').compute_cyclepoints
            check_call(ctx, f, [sig, 500.0, (8.0, 12.0)], dict(filter_kwargs=fk, pad=L > 0),
                       ['sig', 'fs', 'f_range', 'filter_kwargs', 'pad'], may_raise=True)
        else:
            f = ctx.mod('bycycle.cyclepoints.extrema').find_extrema
            check_call(ctx, f, [sig, 500.0, (8.0, 12.0)], dict(filter_kwargs=fk, pad=L > 0, first_extrema=None),
                       ['sig', 'fs', 'f_range', 'filter_kwargs', 'pad', 'first_extrema'], may_raise=True)
        return
    if fn == 'find_zerox':
        n = cfg['n']
        x = [ctx.real('x%d' % i) for i in range(n)]
        sig = np.array(list(x), dtype=float)
        f = ctx.mod('bycycle.cyclepoints.zerox').find_zerox
        check_call(ctx, f, [sig, np.array([1, 4], dtype=int), np.array([2, 5], dtype=int)], {}, ['sig', 'peaks', 'troughs'])
        return
    if fn in ('compute_burst_features_amp', 'compute_burst_features_cycles', 'compute_burst_fraction'):
        rows, n = cfg['rows'], cfg['n']
        fb = ctx.mod('bycycle.features.burst')
        x = [ctx.real('x%d' % i) for i in range(n)]
        sig = np.array(list(x), dtype=float)
        table = c09.symbolic_table(ctx, rows, n)
        table['volt_amp'] = [ctx.real('va%d' % i) for i in range(rows)]
        table['volt_rise'] = [ctx.real('vr%d' % i) for i in range(rows)]
        table['volt_decay'] = [ctx.real('vd%d' % i) for i in range(rows)]
        table['period'] = [table['sample_next_trough'][i] - table['sample_last_trough'][i] for i in range(rows)]
        df = pd.DataFrame({c: list(v) for c, v in table.items()})
        pipe.Stubs(ctx, 0, relate=('same',))
        if fn == 'compute_burst_features_amp':
            bk = {'fs': 500.0, 'f_range': (8.0, 12.0)}
            if cfg['variant'] == 'plus_m':
                bk['min_n_cycles'] = 2
            check_call(ctx, fb.compute_burst_features, [df, sig], dict(burst_method='amp', burst_kwargs=bk),
                       ['df_shape_features', 'sig', 'burst_method', 'burst_kwargs'])
        elif fn == 'compute_burst_features_cycles':
            check_call(ctx, fb.compute_burst_features, [df, sig], dict(burst_method='cycles'),
                       ['df_shape_features', 'sig', 'burst_method'])
        else:
            fk = {'n_cycles': 3}
            if cfg.get('fk') == 'detector_options':
                fk.update(magnitude_type='amplitude', avg_type='median')
            check_call(ctx, fb.compute_burst_fraction, [df, sig, 500.0, (8.0, 12.0)], dict(filter_kwargs=fk),
                       ['df_samples', 'sig', 'fs', 'f_range', 'filter_kwargs'])
        return
    if fn == 'recompute_edges':
        from harness import c06
        rows = cfg['rows']
        bc = ctx.mod('bycycle.burst.cycle')
        bu = ctx.mod('bycycle.burst.utils')
        cells = c06.make_table(ctx, rows)
        for c in ('amp_consistency', 'period_consistency'):
            cells[c][0] = float('nan')
            cells[c][-1] = float('nan')
        data = {c: list(v) for c, v in cells.items()}
        data['volt_rise'] = [ctx.real('vr%d' % i) for i in range(rows)]
        data['volt_decay'] = [ctx.real('vd%d' % i) for i in range(rows)]
        per = [ctx.integer('per%d' % i) for i in range(rows)]
        for p in per:
            ctx.assume(p >= 1)
        data['period'] = per
        data['sample_peak'] = [10 * i + 5 for i in range(rows)]
        thr = {c + '_threshold': 0.5 for c in c06.COLS}
        thr['min_n_cycles'] = 1
        df = bc.detect_bursts_cycles(pd.DataFrame(data), **thr)
        thr2 = {c + '_threshold': ctx.real('thr2_' + c) for c in c06.COLS}
        for v in thr2.values():
            ctx.assume(v >= 0)
            ctx.assume(v <= 1)
        thr2['min_n_cycles'] = 1
        check_call(ctx, bu.recompute_edges, [df, thr2], {}, ['df_features', 'threshold_kwargs'])
        return
    if fn in ('limit_df', 'epoch_df', 'drop_samples_df'):
        rows, centre = cfg['rows'], cfg['centre']
        du = ctx.mod('bycycle.utils.dataframes')
        data, scols = c18.sample_table(ctx, rows, centre)
        ctx.assume(data[scols[-1]][-1] <= 12)
        df = pd.DataFrame({c: list(v) for c, v in data.items()})
        if fn == 'limit_df':
            start = ctx.real('start')
            ctx.assume(start >= 0)
            ctx.assume(start <= 2)
            stop = ctx.real('stop')
            ctx.assume(stop >= start)
            ctx.assume(stop <= 3)
            check_call(ctx, du.limit_df, [df, 2], dict(start=start, stop=stop), ['df', 'fs', 'start', 'stop'])
        elif fn == 'epoch_df':
            e = ctx.integer('epoch_len')
            ctx.assume(e >= 1)
            ctx.assume(e <= 13)
            el = ctx.toint(e)
            check_call(ctx, du.epoch_df, [df, ((12 // el) + 1) * el, el], {}, ['df_features', 'sig_len', 'epoch_len'])
        else:
            check_call(ctx, du.drop_samples_df, [df], {}, ['df_features'])
        return
    if fn in ('compute_features_2d', 'compute_features_3d'):
        gf = ctx.mod('bycycle.group.features')
        axis, kwk = cfg['axis'], cfg['kw']
        three = fn.endswith('3d')
        shape = (2, 2, 4) if three else (2, 4)
        cnt = shape[0] * shape[1] * (shape[2] if three else 1)
        vals = [ctx.real('x%d' % i) for i in range(cnt)]
        arr = np.array(list(vals), dtype=float).reshape(*shape)

        def one():
            return {'center_extrema': 'peak', 'threshold_kwargs': {'min_n_cycles': 1}, 'return_samples': False}
        if kwk == 'none':
            kw = None
        elif kwk == 'dict':
            kw = one()
        elif three and axis == 'both':
            kw = [[one() for _ in range(shape[1])] for _ in range(shape[0])]
        else:
            kw = [one() for _ in range(shape[1] if axis == 1 else shape[0])]
        saved = (gf.compute_features, gf.epoch_df, gf.detect_bursts_cycles)

        def token(sig, fs=None, f_range=None, **k):
            n = len(sig)
            ends = list(range(3, n, 4))      # one cycle closing inside every 4-sample epoch
            return pd.DataFrame({'sample_next_trough': ends, 'sample_last_trough': [e - 2 for e in ends],
                                 'sample_peak': [e - 1 for e in ends],
                                 'amp_fraction': [1.0] * len(ends), 'amp_consistency': [1.0] * len(ends),
                                 'period_consistency': [1.0] * len(ends), 'monotonicity': [1.0] * len(ends),
                                 'first_sample': [sig[e - 3] for e in ends]})
        gf.compute_features = token
        ctx.env.CUR.pool_order = None
        try:
            ax = (0, 1) if axis == 'both' else axis
            f = gf.compute_features_3d if three else gf.compute_features_2d
            check_call(ctx, f, [arr, 500.0, (8.0, 12.0)], dict(compute_features_kwargs=kw, axis=ax, n_jobs=1),
                       ['sigs', 'fs', 'f_range', 'compute_features_kwargs', 'axis', 'n_jobs'])
        finally:
            gf.compute_features, gf.epoch_df, gf.detect_bursts_cycles = saved
        return
    raise RuntimeError(fn)
