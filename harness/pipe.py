"""Shared pieces for the pipeline harnesses (C01, C04, C07, C09, C10, C14, C15):
contract stubs at the neurodsp boundary and reference checks of a cycle table."""


class Stubs:
    """Installs the neurodsp contract stubs for one path and records their calls.

    filter_signal  -> fresh reals of len(sig)            (arbitrary filter output)
    amp_by_time    -> fresh reals >= 0 of len(sig)       (arbitrary amplitude envelope)
    dual threshold -> fresh booleans of len(sig)
    compute_filter_length -> ``L``

    Relational contracts (used by C09 / C10): a later call whose input is the negated / scaled
    input of the first call returns the negated / scaled (filter), identical / scaled (amplitude),
    identical (dual threshold) output of the first call, see ``relate``."""

    def __init__(self, ctx, L=0, relate=None, min_halfwaves=0, pattern=None):
        self.ctx = ctx
        self.L = L
        self.min_halfwaves = min_halfwaves
        self.pattern = pattern      # optional sign pattern ('+' / '-') of the FIRST filter output (enumerated choice)
        self.relate = relate        # None | ('neg',) | ('scale', a) | ('same',)
        self.filt, self.amp, self.dual = [], [], []
        st = ctx.env.CUR
        st.filter_signal = self._filter
        self.flen = []
        st.filter_length = self._filter_length
        st.amp_by_time = self._amp
        st.dual_threshold = self._dual

    def _filter_length(self, fs, pass_type, f_lo, f_hi, n_cycles, n_seconds):
        """Library contract: the length is fs * n_seconds, else fs * n_cycles / f_lo (made odd).  Under the
        ('ratio',) relation a later call with the same length key gets the same L, any other key a different L."""
        ctx = self.ctx
        call = dict(fs=fs, f_lo=f_lo, n_cycles=n_cycles, n_seconds=n_seconds)
        self.flen.append(call)
        if self.relate is None or self.relate[0] != 'ratio' or len(self.flen) == 1:
            return self.L
        first = self.flen[0]
        try:
            if (n_seconds is None) != (first['n_seconds'] is None):
                same = False
            elif n_seconds is not None:
                same = ctx.truth(fs * n_seconds == first['fs'] * first['n_seconds'])
            else:
                same = ctx.truth(fs * n_cycles * first['f_lo'] == first['fs'] * first['n_cycles'] * f_lo)
        except TypeError:
            same = False
        return self.L if same else self.L + 2

    def _same_call(self, first, sig, fs, f_range):
        """('ratio',) contract: same samples and the same f/fs ratios (cross-multiplied, so the
        comparison stays linear when one side is concrete) -> the library returns the same output."""
        ctx = self.ctx
        if len(first['sig']) != len(sig):
            return False
        if not ctx.truth(ctx.conj([ctx.eq(a, b) for a, b in zip(first['sig'], ctx.tolist(sig))])):
            return False
        fr0, fr1 = first['f_range'], f_range
        try:
            ok = ctx.conj([fr1[0] * first['fs'] == fr0[0] * fs, fr1[1] * first['fs'] == fr0[1] * fs])
        except TypeError:
            return False
        return ctx.truth(ok)

    def _related(self, store, transform, fresh):
        """first call: fresh values; later calls under a relational contract: transformed values."""
        if self.relate is not None and store:
            return [transform(v) for v in store[0]['out']]
        return fresh()

    def _filter(self, sig, fs, pass_type, f_range, remove_edges, kw):
        ctx = self.ctx
        k = len(self.filt)
        n = len(sig)

        def fresh():
            return [ctx.real('f%d_%d' % (k, i)) for i in range(n)]
        if self.relate is not None and self.filt:
            if len(self.filt[0]['out']) != n:
                out = fresh()
            elif self.relate[0] == 'neg':
                out = [-v for v in self.filt[0]['out']]
            elif self.relate[0] == 'scale':
                out = [self.relate[1] * v for v in self.filt[0]['out']]
            elif self.relate[0] == 'ratio':
                same = self._same_call(self.filt[0], sig, fs, f_range) and self.filt[0]['kw'] == kw \
                    and self.filt[0]['pass_type'] == pass_type
                out = list(self.filt[0]['out']) if same else fresh()
            else:
                out = list(self.filt[0]['out'])
        else:
            out = fresh()
            if self.pattern is not None and not self.filt:
                if len(self.pattern) != n:
                    ctx.assume(False)
                for v, ch in zip(out, self.pattern):
                    ctx.assume(v > 0 if ch == '+' else v <= 0)
            if self.min_halfwaves:
                # exploration cut: with fewer closed half-waves of either kind bycycle cannot build a
                # row (it raises) and the statement does not apply; abandon the path before the
                # expensive part.  The signs are read by bycycle anyway, so no extra forks arise.
                pos, neg = closed_halfwaves(*crossings(ctx, out))
                if len(pos) < self.min_halfwaves or len(neg) < self.min_halfwaves:
                    ctx.assume(False)
        self.filt.append(dict(sig=ctx.tolist(sig), fs=fs, pass_type=pass_type, f_range=f_range,
                              remove_edges=remove_edges, kw=kw, out=out))
        return ctx.np.array(list(out), dtype=float)

    def _amp(self, sig, fs, f_range, remove_edges, kw):
        ctx = self.ctx
        k = len(self.amp)
        n = len(sig)
        use_first = self.relate is not None and self.amp and len(self.amp[0]['out']) == n
        if use_first and self.relate[0] == 'ratio':
            use_first = self._same_call(self.amp[0], sig, fs, f_range) and self.amp[0]['kw'] == kw
        if use_first:
            if self.relate[0] == 'scale':
                out = [self.relate[1] * v for v in self.amp[0]['out']]
            else:
                out = list(self.amp[0]['out'])
        else:
            out = []
            for i in range(n):
                v = ctx.real('amp%d_%d' % (k, i))
                ctx.assume(v >= 0)
                out.append(v)
        self.amp.append(dict(sig=ctx.tolist(sig), fs=fs, f_range=f_range, remove_edges=remove_edges, kw=kw, out=out))
        return ctx.np.array(list(out), dtype=float)

    def _dual(self, sig, fs, dual_thresh, f_range, min_n_cycles, min_burst_duration, kw):
        ctx = self.ctx
        k = len(self.dual)
        n = len(sig)
        use_first = self.relate is not None and self.dual and len(self.dual[0]['out']) == n
        if use_first and self.relate[0] == 'ratio':
            d0 = self.dual[0]
            use_first = self._same_call(d0, sig, fs, f_range) and d0['kw'] == kw and \
                tuple(d0['dual_thresh']) == tuple(dual_thresh) and d0['min_burst_duration'] is min_burst_duration \
                and ctx.truth(d0['min_n_cycles'] == min_n_cycles)
        if use_first:
            out = list(self.dual[0]['out'])
        else:
            out = [ctx.boolean('dt%d_%d' % (k, i)) for i in range(n)]
        self.dual.append(dict(sig=ctx.tolist(sig), fs=fs, dual_thresh=dual_thresh, f_range=f_range,
                              min_n_cycles=min_n_cycles, min_burst_duration=min_burst_duration, kw=kw, out=out))
        return ctx.np.array(list(out), dtype=bool)


def crossings(ctx, f):
    rises, decays = [], []
    for i in range(len(f) - 1):
        if ctx.truth(ctx.conj([f[i] <= 0, f[i + 1] > 0])):
            rises.append(i)
        if ctx.truth(ctx.conj([f[i] > 0, f[i + 1] <= 0])):
            decays.append(i)
    return rises, decays


def closed_halfwaves(rises, decays):
    pos = [(r, min(d for d in decays if d > r)) for r in rises if any(d > r for d in decays)]
    neg = [(d, min(r for r in rises if r > d)) for d in decays if any(r > d for r in rises)]
    return pos, neg


SIDE = {'peak': 'trough', 'trough': 'peak'}


def sample_cols(centre):
    """(last side, last zerox, first midpoint, centre, second midpoint, next side) column names."""
    if centre == 'peak':
        return ['sample_last_trough', 'sample_last_zerox_decay', 'sample_zerox_rise', 'sample_peak',
                'sample_zerox_decay', 'sample_next_trough']
    return ['sample_last_peak', 'sample_last_zerox_rise', 'sample_zerox_decay', 'sample_trough',
            'sample_zerox_rise', 'sample_next_peak']


def table_cols(ctx, df):
    return {c: ctx.tolist(df[c]) for c in df.columns}


def segmentation_obligations(ctx, cols, centre, n, boundary):
    """C01 structure of a returned table (concrete or symbolic sample columns)."""
    last_c, lastmid_c, m1_c, cen_c, m2_c, next_c = sample_cols(centre)
    rows = len(cols[cen_c])
    obl = []
    for i in range(rows):
        last, m1, cen, m2, nxt = cols[last_c][i], cols[m1_c][i], cols[cen_c][i], cols[m2_c][i], cols[next_c][i]
        obl.append((ctx.conj([last < cen, cen < nxt]), 'last side extremum < centre extremum < next side extremum'))
        obl.append((ctx.conj([last <= m1, m1 <= cen, cen <= m2, m2 <= nxt]),
                    'midpoints lie (inclusively) between the extrema they separate'))
        obl.append((ctx.conj([last >= 0, nxt <= n - 1, cols[lastmid_c][i] >= 0, cols[lastmid_c][i] <= last]),
                    'every index inside the signal'))
        obl.append((ctx.conj([last > boundary, nxt < n - boundary]), 'every extremum beyond the requested boundary'))
        if i + 1 < rows:
            obl.append((nxt == cols[last_c][i + 1], 'consecutive rows share their side extremum (no gap, no overlap)'))
            obl.append((m2 == cols[lastmid_c][i + 1], 'last zero-crossing of a row is the previous row\'s second midpoint'))
    return obl
