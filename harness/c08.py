"""C08 -- check_min_burst_cycles removes exactly the runs shorter than min_n_cycles.

The boolean array elements and min_n_cycles (an unbounded integer >= 0) are solver
variables; the real function is executed over the numpy model; the oracle is the closed
run-length formula  out[i] <=> in[i] /\\ runlen(i) >= m  written from the statement."""
from engine.ctx import exc_label

FUNCTIONS = ['bycycle.burst.utils.check_min_burst_cycles']
BOUNDS = {'quick': 'array length 0..10, every boolean array, every integer min_n_cycles >= 0',
          'thorough': 'array length 0..13, every boolean array, every integer min_n_cycles >= 0'}
OUTSIDE = 'arrays longer than the bound; non-integer min_n_cycles'
STUBS = []
CROSSHAIR = 'crosscheck/ch_c08.py'     # thorough tier: second engine on arrays of length <= 5
ASSUMPTIONS = ['numpy model (models/np_model.py) validated by conformance + witness replay on real numpy']


def configs(tier):
    top = 10 if tier == 'quick' else 13
    out = [{'n': n, 'kind': 'array'} for n in range(0, top + 1)] + [{'n': 3, 'kind': 'list'}]
    # boolean arrays that are views with other memory layouts (every second element, reversed, a matrix column)
    out += [{'n': n, 'kind': 'array', 'layout': lay} for n in (3, 5, 6) for lay in ('strided', 'flipped', 'column')]
    return out


def cost(cfg):
    return 2 ** cfg['n']


def split(cfg, tier):
    return 40 if cfg['n'] >= 9 else None


def run(ctx, cfg):
    np = ctx.np
    n = cfg['n']
    bu = ctx.mod('bycycle.burst.utils')
    bits = [ctx.boolean('b%d' % i) for i in range(n)]
    m = ctx.integer('m')
    ctx.assume(m >= 0)
    if cfg['kind'] == 'list':
        try:
            bu.check_min_burst_cycles(list(bits), min_n_cycles=m)
        except ValueError:
            ctx.prove(True, 'non-array input rejected with ValueError')
            return
        except Exception as e:
            ctx.fail(exc_label(e))
            return
        ctx.fail('non-array input accepted')
        return
    arr = np.array(bits, dtype=bool)
    lay = cfg.get('layout')
    if lay == 'strided':
        base = np.zeros(2 * n, dtype=bool)
        base[::2] = arr
        arr = base[::2]
    elif lay == 'flipped':
        arr = np.flip(np.array(list(reversed(bits)), dtype=bool))
    elif lay == 'column':
        base = np.zeros((n, 2), dtype=bool)
        base[:, 1] = arr
        arr = base[:, 1]
    try:
        out = bu.check_min_burst_cycles(arr, min_n_cycles=m)
    except Exception as e:
        ctx.fail(exc_label(e))
        return
    out_l = ctx.tolist(out)
    ctx.obs('out', out_l)
    if not ctx.prove(len(out_l) == n, 'same length'):
        return
    # oracle: run length through i = left(i) + right(i) - 1
    left, right = [0] * n, [0] * n
    for i in range(n):
        prev = left[i - 1] if i > 0 else 0
        left[i] = ctx.ite(bits[i], prev + 1, 0)
    for i in reversed(range(n)):
        nxt = right[i + 1] if i < n - 1 else 0
        right[i] = ctx.ite(bits[i], nxt + 1, 0)
    obl = []
    for i in range(n):
        runlen = left[i] + right[i] - 1
        want = ctx.conj([bits[i], runlen >= m])
        obl.append((out_l[i] == want, 'out[%d] <=> in[%d] and runlen >= min_n_cycles' % (i, i)))
        obl.append((ctx.disj([ctx.neg(out_l[i]), bits[i]]), 'no False becomes True'))
    ctx.prove_all(obl)
    # idempotence: applying the filter to its own result changes nothing
    try:
        again = bu.check_min_burst_cycles(np.array(list(out_l), dtype=bool), min_n_cycles=m)
    except Exception as e:
        ctx.fail(exc_label(e))
        return
    again_l = ctx.tolist(again)
    ctx.prove(len(again_l) == n, 'idempotent: same length')
    ctx.prove_all([(again_l[i] == out_l[i], 'idempotent at %d' % i) for i in range(min(n, len(again_l)))])
    if n == 0:
        ctx.reachable()
