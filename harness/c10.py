"""C10 -- results are covariant with amplitude units and with sampling-rate units.

(a) amplitude: compute_features(x) and compute_features(a*x) on ONE path.
    'amp_cp'  : the real cyclepoint search (find_extrema, find_zerox, compute_cyclepoints) with a
                SYMBOLIC scale factor a > 0 (filter contract: positively homogeneous);
    'amp_full': the full table with compute_cyclepoints cut to a recorder (same table for the scaled
                input -- justified by 'amp_cp'), a in {2^-20, 2^-1, 2, 2^20} (the property's own
                restriction to powers of two), so every obligation is linear.
(b) units   : compute_features(x, fs, f_range) and compute_features(x, c*fs, c*f_range), c > 0
    SYMBOLIC, the whole pipeline for real; the neurodsp stubs are keyed by the ratios f/fs (the
    library's ratio-only dependence is the assumed contract), so any stray use of fs, a swapped band
    edge or an absolute threshold makes the two tables differ."""
import fractions
from engine.ctx import exc_label
from harness import pipe, c09

FUNCTIONS = ['bycycle.features.features.compute_features', 'bycycle.features.cyclepoints.compute_cyclepoints',
             'bycycle.cyclepoints.extrema.find_extrema', 'bycycle.cyclepoints.zerox.find_zerox',
             'bycycle.features.shape.compute_shape_features', 'bycycle.features.burst.compute_burst_features',
             'bycycle.burst.cycle.detect_bursts_cycles', 'bycycle.burst.amp.detect_bursts_amp']
BOUNDS = {'quick': 'amp_cp: padded length <= 7, symbolic a > 0; amp_full: N = 5 (1 cycle), 6..7 (2 cycles), 8 (3 cycles), a in {2^-20, 1/2, 2, 2^20}; units: padded length 8, symbolic c > 0, both burst methods',
          'thorough': 'amp_cp: padded length <= 8; amp_full: N <= 8, all four factors; units: padded length <= 9'}
OUTSIDE = 'longer signals; IEEE rounding (the property itself restricts factors to powers of two for that reason; reals are used here); scale factors other than the four listed for the full table'
STUBS = ['filter_signal: positively homogeneous (amp_cp) / depends on f/fs only (units)', 'amp_by_time: homogeneous / ratio-only',
         'detect_bursts_dual_threshold: scale-free / ratio-only', 'amp_full: compute_cyclepoints -> same arbitrary C01-conforming table for x and a*x']
ASSUMPTIONS = ['relational stub contracts (verified bit-exact for power-of-two factors on the real library in the design round)']

SCALED = {'volt_peak', 'volt_trough', 'volt_rise', 'volt_decay', 'volt_amp', 'band_amp'}
FACTORS = {'2^-20': fractions.Fraction(1, 2 ** 20), '2^-1': fractions.Fraction(1, 2), '2': 2, '2^20': 2 ** 20}


def configs(tier):
    q = tier == 'quick'
    out = []
    for L, ns in ((0, [6, 7] if q else [6, 7, 8]), (1, [5] if q else [5, 6])):
        for n in ns:
            out.append({'mode': 'amp_cp', 'n': n, 'L': L})
    for rows, ns in ((1, [5]), (2, [6, 7] if q else [6, 7, 8]), (3, [8])):
        for n in ns:
            for method in ('cycles', 'amp'):
                for centre in ('peak', 'trough'):
                    for a in (['2^-1', '2^20'] if q else list(FACTORS)):
                        if q and (rows == 3 and (centre == 'trough' or a == '2^-1') or rows == 2 and n == 7 and a == '2^-1'):
                            continue
                        if not q and n == 8 and a in ('2^-1', '2') and centre == 'trough':
                            continue
                        out.append({'mode': 'amp_full', 'rows': rows, 'n': n, 'method': method, 'centre': centre, 'a': a})
    # integer-typed recordings (raw ADC counts), scaled by the integer 2
    for method in ('cycles', 'amp'):
        for centre in ('peak', 'trough'):
            out.append({'mode': 'amp_full', 'rows': 2, 'n': 6, 'method': method, 'centre': centre, 'a': '2', 'dtype': 'int'})
    for L, ns in ((0, [8] if q else [8, 9]), (1, [6] if q else [6, 7])):
        for n in ns:
            for method in ('cycles', 'amp'):
                for centre in ('peak', 'trough'):
                    if not q and n in (9, 7) and centre == 'trough':
                        continue
                    out.append({'mode': 'units', 'n': n, 'L': L, 'method': method, 'centre': centre})
    # both analyses are handed the very same (initially empty) burst-option dictionary, as an object refitted with
    # other units would do
    out.append({'mode': 'units', 'n': 6, 'L': 1, 'method': 'amp', 'centre': 'peak', 'shared_bk': True})
    return out


def cost(cfg):
    if cfg['mode'] == 'amp_full':
        return (9.0 if cfg['method'] == 'cycles' else 3.0) ** cfg['n']
    return 5.0 ** (cfg['n'] + 2 * ((cfg['L'] + 1) // 2))


def split(cfg, tier):
    return 48 if cost(cfg) > 20000 else None


def compare_tables(ctx, t1, t2, a, what):
    c1, c2 = pipe.table_cols(ctx, t1), pipe.table_cols(ctx, t2)
    if not ctx.prove(list(c1.keys()) == list(c2.keys()) and len(t1) == len(t2), 'same columns and number of cycles (%s)' % what):
        return
    # column by column, dependencies first; every proved equality becomes a lemma for the later
    # ones (labels follow from equal features), which keeps each query small
    order = [c for c in c1 if c.startswith('sample_') or c.startswith('time_') or c == 'period'] + \
            [c for c in c1 if c.startswith('volt_')] + \
            [c for c in ('band_amp', 'amp_fraction', 'monotonicity', 'period_consistency', 'burst_fraction') if c in c1]
    order += [c for c in c1 if c not in order and c != 'is_burst'] + [c for c in c1 if c == 'is_burst']
    n_obl = 0
    for c in order:
        obl = []
        for u, v in zip(c1[c], c2[c]):
            if a is not None and c in SCALED:
                obl.append((ctx.eq(v, a * u), 'voltage feature %s multiplied by the scale factor' % c))
            elif c == 'is_burst':
                obl.append((u == v, 'identical burst labels (%s)' % what))
            else:
                obl.append((ctx.eq(u, v), 'column %s unchanged (%s)' % (c, what)))
        n_obl += len(obl)
        if c == 'amp_consistency':
            for o in obl:
                ctx.prove_all([o], lemma=True)
        else:
            ctx.prove_all(obl, lemma=True)
    if not n_obl:
        ctx.reachable()


def run(ctx, cfg):
    np, pd = ctx.np, ctx.pd
    mode, n = cfg['mode'], cfg['n']
    is_int = cfg.get('dtype') == 'int'
    x = [(ctx.integer if is_int else ctx.real)('x%d' % i) for i in range(n)]
    sig = np.array(list(x), dtype=int if is_int else float)
    if mode == 'amp_cp':
        a = ctx.real('a')
        ctx.assume(a > 0)
        L = cfg['L']
        st = pipe.Stubs(ctx, L, relate=('scale', a), min_halfwaves=2)
        cp = ctx.mod('bycycle.features.cyclepoints')
        boundary = ctx.integer('boundary')
        ctx.assume(boundary >= 0)
        ctx.assume(boundary <= n + 1)
        try:
            t1 = cp.compute_cyclepoints(sig, 500.0, (8.0, 12.0), boundary=boundary, pad=L > 0)
        except Exception:
            return      # no table for x (C01's business)
        try:
            t2 = cp.compute_cyclepoints(np.array([a * v for v in x], dtype=float), 500.0, (8.0, 12.0),
                                        boundary=boundary, pad=L > 0)
        except Exception as e:
            ctx.fail('scaled signal: ' + exc_label(e))
            return
        ctx.obs('t1', pipe.table_cols(ctx, t1))
        compare_tables(ctx, t1, t2, None, 'amplitude scaling, cyclepoints')
        return
    ff = ctx.mod('bycycle.features.features')
    method, centre = cfg['method'], cfg['centre']
    thr = c09.thresholds_for(method)
    if mode == 'amp_full':
        a = FACTORS[cfg['a']]
        af = a if ctx.mode == 'sym' else float(a)
        sh = ctx.mod('bycycle.features.shape')
        table = c09.symbolic_table(ctx, cfg['rows'], n)
        st = pipe.Stubs(ctx, 0, relate=('scale', af))
        seen = []

        def fake_cp(s, fs, f_range, **kw):
            seen.append(ctx.tolist(s))
            return pd.DataFrame({c: list(v) for c, v in table.items()})
        saved = sh.compute_cyclepoints
        sh.compute_cyclepoints = fake_cp
        try:
            t1 = ff.compute_features(sig, 500.0, (8.0, 12.0), center_extrema=centre, burst_method=method,
                                     threshold_kwargs=dict(thr))
            t2 = ff.compute_features(np.array([af * v for v in x], dtype=int if is_int else float), 500.0, (8.0, 12.0),
                                     center_extrema=centre, burst_method=method, threshold_kwargs=dict(thr))
        except Exception as e:
            ctx.fail(exc_label(e))
            return
        finally:
            sh.compute_cyclepoints = saved
        if not ctx.prove(len(seen) == 2, 'cyclepoints searched once per analysis'):
            return
        ctx.prove_all([(ctx.eq(v, af * u), 'second analysis searches cyclepoints on the scaled signal')
                       for u, v in zip(seen[0], seen[1])])
        ctx.obs('t1', pipe.table_cols(ctx, t1))
        compare_tables(ctx, t1, t2, af, 'amplitude scaling')
        return
    if mode == 'units':
        c = ctx.real('c')
        ctx.assume(c > 0)
        L = cfg['L']
        st = pipe.Stubs(ctx, L, relate=('ratio',), min_halfwaves=2)
        fek = {'pad': L > 0}
        bk = {'amp_threshes': (1, 2)} if method == 'amp' else None
        shared = {} if cfg.get('shared_bk') else None
        try:
            t1 = ff.compute_features(sig, 500.0, (8.0, 12.0), center_extrema=centre, burst_method=method,
                                     burst_kwargs=shared if shared is not None else (dict(bk) if bk else None),
                                     threshold_kwargs=dict(thr), find_extrema_kwargs=dict(fek))
        except Exception:
            return
        try:
            t2 = ff.compute_features(np.array(list(x), dtype=float), 500.0 * c, (8.0 * c, 12.0 * c),
                                     center_extrema=centre, burst_method=method,
                                     burst_kwargs=shared if shared is not None else (dict(bk) if bk else None),
                                     threshold_kwargs=dict(thr), find_extrema_kwargs=dict(fek))
        except Exception as e:
            ctx.fail('rescaled units: ' + exc_label(e))
            return
        ctx.obs('t1', pipe.table_cols(ctx, t1))
        compare_tables(ctx, t1, t2, None, 'fs and f_range multiplied by the same constant')
        return
    raise RuntimeError(mode)
