"""C18 -- limit_df / limit_signal / split_samples_df / drop_samples_df / flatten_dfs are lossless
selections.

Sample columns are symbolic integers under the C01 ordering invariant, feature cells and time
stamps symbolic reals, start / stop symbolic reals or None; fs is enumerated so that start*fs
stays linear.  The real functions run over the pandas/numpy models."""
from engine.ctx import exc_label

FUNCTIONS = ['bycycle.utils.dataframes.limit_df', 'bycycle.utils.dataframes.get_extrema_df',
             'bycycle.utils.timeseries.limit_signal', 'bycycle.utils.dataframes.split_samples_df',
             'bycycle.utils.dataframes.drop_samples_df', 'bycycle.utils.dataframes.flatten_dfs']
BOUNDS = {'quick': 'limit_df: 1..3 cycles, both centrings, sample indices <= 8, start/stop each None or real with fs*start <= 6 and fs*stop <= 9, fs in {1,2,0.5}, reset_indices both; limit_signal: <= 5 samples; split/drop: 1..3 rows; flatten_dfs: 1..3 tables (1-D), up to 2x2 (2-D)',
          'thorough': 'limit_df: 1..4 cycles, fs in {1,2,0.5,4}, and 4..5 cycles with sample indices <= 12; limit_signal <= 10 samples; flatten_dfs up to 6 tables / 3x3, 2x4, 4x2'}
OUTSIDE = 'IEEE rounding of fs*start and int(fs*start) (exact reals here; see the C20 floating-point kernels); longer tables'
STUBS = []
ASSUMPTIONS = ['tables satisfy the C01 ordering invariant; time stamps strictly increase; 0 <= start <= stop']

PEAK_COLS = ['sample_last_trough', 'sample_last_zerox_decay', 'sample_zerox_rise', 'sample_peak',
             'sample_zerox_decay', 'sample_next_trough']
TROUGH_COLS = ['sample_last_peak', 'sample_last_zerox_rise', 'sample_zerox_decay', 'sample_trough',
               'sample_zerox_rise', 'sample_next_peak']


def configs(tier):
    q = tier == 'quick'
    out = []
    for rows in range(1, (3 if q else 4) + 1):
        for centre in ('peak', 'trough'):
            for st in ('none', 'real'):
                for sp in ('none', 'real'):
                    for reset in (True, False):
                        for fs in ([1, 2, 0.5] if q else [1, 2, 0.5, 4]):
                            if rows > 2 and fs not in (1, 2):
                                continue
                            out.append({'fn': 'limit_df', 'rows': rows, 'centre': centre, 'start': st, 'stop': sp,
                                        'reset': reset, 'fs': fs})
    if not q:
        # longer tables on a longer signal (sample indices <= 12, fs*start <= 10, fs*stop <= 13)
        for rows in (4, 5):
            for centre in ('peak', 'trough'):
                for reset in (True, False):
                    out.append({'fn': 'limit_df', 'rows': rows, 'centre': centre, 'start': 'real', 'stop': 'real',
                                'reset': reset, 'fs': 1, 'maxs': 12})
    for n in range(1, (5 if q else 10) + 1):
        out.append({'fn': 'limit_signal', 'n': n})
    # tables whose index labels repeat (the output of flatten_dfs / pd.concat)
    for centre in ('peak', 'trough'):
        out.append({'fn': 'limit_df', 'rows': 3, 'centre': centre, 'start': 'real', 'stop': 'real', 'reset': True, 'fs': 1,
                    'index': 'dup'})
    for rows in range(1, 4):
        for centre in ('peak', 'trough'):
            out.append({'fn': 'split', 'rows': rows, 'centre': centre})
            out.append({'fn': 'drop', 'rows': rows, 'centre': centre})
    # ... also for a table that does not carry the default 0..n-1 row labels (a windowed / filtered table)
    for fn in ('split', 'drop'):
        out.append({'fn': fn, 'rows': 2, 'centre': 'peak', 'index': 'shifted'})
    for k in range(1, (3 if q else 6) + 1):
        out.append({'fn': 'flatten1', 'k': k})
    # labels need not be unique (conditions that repeat: rest / task / rest)
    out.append({'fn': 'flatten1', 'k': 3, 'repeat_labels': True})
    out.append({'fn': 'flatten2', 'a': 2, 'b': 2, 'repeat_labels': True})
    for a, b in ([(1, 1), (1, 2), (2, 1), (2, 2)] + ([] if q else [(2, 3), (3, 2), (1, 3), (3, 1), (3, 3), (2, 4), (4, 2)])):
        out.append({'fn': 'flatten2', 'a': a, 'b': b})
    out.append({'fn': 'flatten_mismatch'})
    return out


def cost(cfg):
    return 4.0 ** cfg.get('rows', 1) if cfg['fn'] == 'limit_df' else 1


def sample_table(ctx, rows, centre, tag=''):
    """Symbolic cycle table under the C01 invariant (+ two feature columns and a row id)."""
    cols = PEAK_COLS if centre == 'peak' else TROUGH_COLS
    data = {c: [] for c in cols}
    prev_next = None
    prev_mid = None
    for i in range(rows):
        last = prev_next if prev_next is not None else ctx.integer('%slast%d' % (tag, i))
        if prev_next is None:
            ctx.assume(last >= 0)
        lastmid = prev_mid if prev_mid is not None else ctx.integer('%slastmid%d' % (tag, i))
        if prev_mid is None:
            ctx.assume(lastmid >= 0)
            ctx.assume(lastmid <= last)
        m1 = ctx.integer('%sm1_%d' % (tag, i))
        cen = ctx.integer('%scen%d' % (tag, i))
        m2 = ctx.integer('%sm2_%d' % (tag, i))
        nxt = ctx.integer('%snext%d' % (tag, i))
        ctx.assume(cen > last)
        ctx.assume(nxt > cen)
        ctx.assume(m1 >= last)
        ctx.assume(m1 <= cen)
        ctx.assume(m2 >= cen)
        ctx.assume(m2 <= nxt)
        for c, v in zip(cols, [last, lastmid, m1, cen, m2, nxt]):
            data[c].append(v)
        prev_next, prev_mid = nxt, m2
    data['feat_a'] = [ctx.real('%sfa%d' % (tag, i)) for i in range(rows)]
    data['feat_b'] = [ctx.real('%sfb%d' % (tag, i), nan_allowed=True) for i in range(rows)]
    data['cycle_id'] = list(range(rows))
    return data, cols


def run(ctx, cfg):
    np, pd = ctx.np, ctx.pd
    du = ctx.mod('bycycle.utils.dataframes')
    ts = ctx.mod('bycycle.utils.timeseries')
    fn = cfg['fn']
    if fn == 'limit_df':
        rows, centre, fs, reset = cfg['rows'], cfg['centre'], cfg['fs'], cfg['reset']
        data, scols = sample_table(ctx, rows, centre)
        maxs = cfg.get('maxs', 8)
        ctx.assume(data[scols[-1]][-1] <= maxs)
        start = stop = None
        if cfg['start'] == 'real':
            start = ctx.real('start')
            ctx.assume(start >= 0)
            ctx.assume(start * fs <= maxs - 2)
        if cfg['stop'] == 'real':
            stop = ctx.real('stop')
            ctx.assume(stop >= (start if start is not None else 0))
            ctx.assume(stop * fs <= maxs + 1)
        df = pd.DataFrame({c: list(v) for c, v in data.items()})
        if cfg.get('index') == 'dup':
            parts = [pd.DataFrame({c: [v[i]] for c, v in data.items()}) for i in range(rows)]
            df = pd.concat(parts, axis=0)            # index labels 0, 0, 0
        kw = {}
        if start is not None:
            kw['start'] = start
        if stop is not None:
            kw['stop'] = stop
        try:
            out = du.limit_df(df, fs, reset_indices=reset, **kw)
        except Exception as e:
            ctx.fail(exc_label(e))
            return
        ids = ctx.tolist(out['cycle_id'])
        ctx.obs('ids', ids)
        ctx.obs('samples', {c: ctx.tolist(out[c]) for c in scols})
        last_c, next_c = scols[0], scols[-1]
        s_fs = (start * fs) if start is not None else 0
        obl = [(all(isinstance(i, int) and 0 <= i < rows for i in ids) and ids == sorted(set(ids)),
                'returned rows are input rows in their original order')]
        if not ctx.prove_all(obl):
            return
        obl = []
        for i in range(rows):
            inside = ctx.conj([data[last_c][i] >= s_fs] + ([data[next_c][i] <= stop * fs] if stop is not None else []))
            outside = ctx.disj([data[next_c][i] < s_fs] + ([data[last_c][i] > stop * fs] if stop is not None else []))
            obl.append((ctx.disj([ctx.neg(inside), i in ids]), 'every cycle entirely inside [start, stop] is returned'))
            obl.append((ctx.disj([ctx.neg(outside), i not in ids]), 'no cycle entirely outside [start, stop] is returned'))
        for j, i in enumerate(ids):
            for f in ('feat_a', 'feat_b'):
                obl.append((ctx.eq(ctx.tolist(out[f])[j], data[f][i]), 'feature values unchanged'))
        if ids:
            off = data[scols[0]][ids[0]] - ctx.tolist(out[scols[0]])[0]
            if not reset:
                obl.append((off == 0, 'sample columns unshifted when reset_indices is False'))
            for c in scols:
                col = ctx.tolist(out[c])
                obl += [(data[c][i] - col[j] == off, 'all sample columns shifted by the same offset') for j, i in enumerate(ids)]
        ctx.prove_all(obl)
        return
    if fn == 'limit_signal':
        n = cfg['n']
        t = [ctx.real('t%d' % i) for i in range(n)]
        x = [ctx.real('x%d' % i) for i in range(n)]
        for i in range(1, n):
            ctx.assume(t[i] > t[i - 1])          # times may be negative (e.g. relative to an event)
        start, stop = ctx.real('start'), ctx.real('stop')
        ctx.assume(start >= 0)
        ctx.assume(stop >= start)
        try:
            sig_o, times_o = ts.limit_signal(np.array(list(t), dtype=float), np.array(list(x), dtype=float),
                                             start=start, stop=stop)
        except Exception as e:
            ctx.fail(exc_label(e))
            return
        sig_o, times_o = ctx.tolist(sig_o), ctx.tolist(times_o)
        ctx.obs('sig', sig_o)
        ctx.obs('times', times_o)
        keep = [i for i in range(n) if ctx.truth(ctx.conj([t[i] >= start, t[i] < stop]))]
        if not ctx.prove(len(sig_o) == len(keep) and len(times_o) == len(keep), 'exactly the samples with start <= t < stop'):
            return
        ctx.prove_all([(ctx.conj([sig_o[j] == x[i], times_o[j] == t[i]]), 'exactly the samples with start <= t < stop, in order')
                       for j, i in enumerate(keep)])
        if not keep:
            ctx.reachable()
        return
    if fn in ('split', 'drop'):
        rows, centre = cfg['rows'], cfg['centre']
        data, scols = sample_table(ctx, rows, centre)
        df = pd.DataFrame({c: list(v) for c, v in data.items()})
        if cfg.get('index') == 'shifted':
            big = pd.DataFrame({c: [0, 0] + list(v) for c, v in data.items()})
            df = big.iloc[range(2, rows + 2)]
        labels = list(df.index)
        before_cols = list(df.columns)
        try:
            if fn == 'split':
                feat, samp = du.split_samples_df(df)
            else:
                feat, samp = du.drop_samples_df(df), None
        except Exception as e:
            ctx.fail(exc_label(e))
            return
        want_feat = [c for c in data if not c.startswith('sample_')]
        want_samp = [c for c in data if c.startswith('sample_')]
        if fn == 'drop':
            # drop_samples_df returns a reduced copy: the table it was given keeps every column and value
            if not ctx.prove(list(df.columns) == before_cols and list(df.index) == labels, 'input table keeps its columns and rows'):
                return
            ctx.prove_all([((cell == data[c][i]) if c.startswith('sample_') else ctx.eq(cell, data[c][i]), 'input table values unaltered')
                           for c in before_cols for i, cell in enumerate(ctx.tolist(df[c]))])
        obl = [(list(feat.columns) == want_feat, 'feature table holds exactly the non-sample columns'),
               (list(feat.index) == labels, 'feature table keeps the row labels'),
               (samp is None or list(samp.index) == labels, 'sample table keeps the row labels')]
        if samp is not None:
            obl.append((list(samp.columns) == want_samp, 'sample table holds exactly the sample_* columns'))
        if not ctx.prove_all(obl):
            return
        obl = []
        for c in want_feat:
            col = ctx.tolist(feat[c])
            obl += [(len(col) == rows, 'row count kept')] + [(ctx.eq(col[i], data[c][i]), 'values unaltered') for i in range(min(rows, len(col)))]
        if samp is not None:
            for c in want_samp:
                col = ctx.tolist(samp[c])
                obl += [(len(col) == rows, 'row count kept')] + [(col[i] == data[c][i], 'values unaltered') for i in range(min(rows, len(col)))]
        ctx.prove_all(obl)
        return
    if fn in ('flatten1', 'flatten2', 'flatten_mismatch'):
        if fn == 'flatten_mismatch':
            dfs = [pd.DataFrame({'a': [1.0]}), pd.DataFrame({'a': [2.0]})]
            try:
                du.flatten_dfs(dfs, ['x'])
            except ValueError:
                ctx.prove(True, 'label/table count mismatch rejected')
                return
            except Exception as e:
                ctx.fail(exc_label(e))
                return
            ctx.fail('label/table count mismatch accepted')
            return
        if fn == 'flatten1':
            shape = [cfg['k']]
        else:
            shape = [cfg['a'], cfg['b']]
        total = shape[0] * (shape[1] if len(shape) > 1 else 1)
        tables, labels_flat, sizes = [], [], []
        for k in range(total):
            r = ctx.toint(_bounded(ctx, 'rows%d' % k, 0, 2))
            vals = [ctx.real('v%d_%d' % (k, i)) for i in range(r)]
            tables.append(pd.DataFrame({'feat': list(vals), 'tid': [k] * r}))
            sizes.append((k, vals))
            labels_flat.append('L%d' % (k % 2 if cfg.get('repeat_labels') else k))
        if len(shape) == 1:
            dfs, labels = tables, list(labels_flat)
        else:
            dfs = [tables[i * shape[1]:(i + 1) * shape[1]] for i in range(shape[0])]
            labels = [labels_flat[i * shape[1]:(i + 1) * shape[1]] for i in range(shape[0])]
        try:
            out = du.flatten_dfs(dfs, labels)
        except Exception as e:
            ctx.fail(exc_label(e))
            return
        feat, tid, lab = ctx.tolist(out['feat']), ctx.tolist(out['tid']), ctx.tolist(out['Label'])
        ctx.obs('tid', tid)
        ctx.obs('lab', lab)
        want_feat, want_tid, want_lab = [], [], []
        for k, vals in sizes:
            want_feat += vals
            want_tid += [k] * len(vals)
            want_lab += [labels_flat[k]] * len(vals)
        if not ctx.prove(len(feat) == len(want_feat) and [int(v) for v in tid] == want_tid and list(lab) == want_lab,
                         'tables concatenated in order, each row carrying its table label'):
            return
        ctx.prove_all([(a == b, 'values unaltered') for a, b in zip(feat, want_feat)])
        if not want_feat:
            ctx.reachable()
        return
    raise RuntimeError(fn)


def _bounded(ctx, name, lo, hi):
    v = ctx.integer(name)
    ctx.assume(v >= lo)
    ctx.assume(v <= hi)
    return v
