"""C19 -- invalid settings are rejected with ValueError, never silently analysed; every documented
valid combination is accepted.

(A) check_kwargs_shape alone on array stand-ins whose EXTENTS ARE SYMBOLIC INTEGERS (>= 1,
    unbounded): a decision table over all extents -- raises ValueError <=> the (ndim, axis,
    option-list shape) combination is not a documented one.
(B) the group entry points on small concrete arrays with compute_features cut: an invalid
    combination raises ValueError and no signal is analysed; a valid one is accepted.
(C) every documented range parameter at its public entry points as ONE SYMBOLIC REAL / INTEGER:
    outside the documented range => ValueError and no table; inside => no ValueError.
(D) enumerated options (centre extremum, burst method, first_extrema, direction, axis, progress):
    valid set + {a fresh string, None, an int}; dimensionality guards; plot before fit."""
from engine.ctx import exc_label
from harness import pipe, c06, c09

FUNCTIONS = ['bycycle.group.utils.check_kwargs_shape', 'bycycle.group.utils.progress_bar',
             'bycycle.group.features.compute_features_2d', 'bycycle.group.features.compute_features_3d',
             'bycycle.features.features.compute_features', 'bycycle.features.shape.compute_shape_features',
             'bycycle.features.shape.compute_band_amp', 'bycycle.features.burst.compute_burst_features',
             'bycycle.features.burst.compute_burst_fraction', 'bycycle.features.burst.compute_amp_consistency',
             'bycycle.features.burst.compute_period_consistency', 'bycycle.burst.cycle.detect_bursts_cycles',
             'bycycle.burst.amp.detect_bursts_amp', 'bycycle.burst.utils.check_min_burst_cycles',
             'bycycle.burst.utils.recompute_edge', 'bycycle.cyclepoints.extrema.find_extrema',
             'bycycle.objs.fit.Bycycle.fit', 'bycycle.objs.fit.Bycycle.plot', 'bycycle.objs.fit.BycycleGroup.fit']
BOUNDS = {'quick': '(A) every extent >= 1 (symbolic); (B) extents <= 3; (C) one symbolic value per parameter, unbounded; (D) listed values',
          'thorough': 'as quick, and (B) on every array shape with extents 1..4 (square and non-square)'}
OUTSIDE = 'option arrays with more than 3 dimensions; parameters not listed in the statement'
STUBS = ['neurodsp stubs reject fs <= 0 with ValueError (real library behaviour: range check for fs < 0, filter design for fs == 0)',
         'compute_features / compute_cyclepoints cut where only the exception behaviour is the subject']
ASSUMPTIONS = ['documented option-list shapes: 2-D array: 1-D list of len(sigs) for axis 0/None; 3-D array: 1-D list of shape[0] (axis 0) / shape[1] (axis 1), 2-D list of shape[:2] (axis (0,1)); None or a single dict always']

AXES = [None, 0, 1, (0, 1), 2, -1, 'x']
BAD_ENUM = ['bogus', None, 7]
FALSY = ['', 0, False]       # unknown values that are falsy (added where they are not documented values)


def configs(tier):
    out = []
    for sd in (2, 3):
        for kd in (1, 2, 3):
            for ax in range(len(AXES)):
                out.append({'part': 'A', 'sigs_ndim': sd, 'kw_ndim': kd, 'axis': ax})
    for sd in (2, 3):
        for ax in range(len(AXES)):
            for kw in ('none', 'dict', 'ok_list', 'short_list', 'long_list', '2d_list', '2d_wrong'):
                if sd == 2 and kw == '2d_wrong':
                    continue
                out.append({'part': 'B', 'sigs_ndim': sd, 'axis': ax, 'kw': kw})
                if tier != 'quick':
                    shapes = [(a, 4) for a in (1, 3, 4)] if sd == 2 else [(a, b, 4) for a in (1, 2, 3, 4) for b in (1, 2, 3, 4) if (a, b) != (2, 3)]
                    for shp in shapes:
                        if kw == 'short_list' and (shp[1] if (sd == 3 and AXES[ax] == 1) else shp[0]) == 1:
                            continue        # the shorter list would be empty: not a statement about option-list shapes
                        out.append({'part': 'B', 'sigs_ndim': sd, 'axis': ax, 'kw': kw, 'shape': list(shp)})
    for probe in sorted(RANGE_PROBES):
        out.append({'part': 'C', 'probe': probe})
    for probe in sorted(ENUM_PROBES):
        out.append({'part': 'D', 'probe': probe})
    return out


def cost(cfg):
    return 1


class Standin:
    """Array stand-in with symbolic extents (np.shape() reads .shape, the code reads .ndim)."""
    def __init__(self, shape):
        self.shape = tuple(shape)
        self.ndim = len(shape)


def documented(sd, kd, axis, ks, ss, ctx):
    """Is (array ndim, axis, option-list shape) a documented combination?  (symbolic condition)"""
    if kd == 3:
        return False
    if sd == 2:
        if axis not in (0, None):
            return False
        return (ks[0] == ss[0]) if kd == 1 else False
    if axis == 0:
        return (ks[0] == ss[0]) if kd == 1 else False
    if axis == 1:
        return (ks[0] == ss[1]) if kd == 1 else False
    if axis == (0, 1):
        return ctx.conj([ks[0] == ss[0], ks[1] == ss[1]]) if kd == 2 else False
    return False


def expect_valueerror(ctx, fn, bad, what, analysed=None):
    """Run fn(); ``bad`` (bool, possibly symbolic) says whether a ValueError is required."""
    try:
        fn()
        raised = None
    except ValueError as e:
        raised = e
    except Exception as e:
        if ctx.truth(bad):
            ctx.fail('%s: %s instead of ValueError' % (what, exc_label(e)))
        else:
            ctx.fail('%s: valid setting raises %s' % (what, exc_label(e)))
        return
    if raised is not None:
        ctx.prove(bad, '%s: valid setting rejected with ValueError' % what)
    else:
        ctx.prove(ctx.neg(bad) if not isinstance(bad, bool) else not bad, '%s: invalid setting accepted' % what)
        if analysed is not None and ctx.truth(bad):
            pass


# --------------------------------------------------------------------------- part C: range parameters

def _cut_pipeline(ctx, rows=1, n=4):
    """compute_features with the cyclepoint search cut (one arbitrary cycle) and neurodsp stubs."""
    pd = ctx.pd
    sh = ctx.mod('bycycle.features.shape')
    table = c09.symbolic_table(ctx, rows, n)
    pipe.Stubs(ctx, 0)
    saved = sh.compute_cyclepoints
    sh.compute_cyclepoints = lambda s, fs, fr, **kw: pd.DataFrame({c: list(v) for c, v in table.items()})
    x = [ctx.real('x%d' % i) for i in range(n)]
    return ctx.np.array(list(x), dtype=float), (sh, saved)


def _features_table(ctx, rows=3):
    cells = c06.make_table(ctx, rows)
    return ctx.pd.DataFrame({c: list(v) for c, v in cells.items()})


def probe_fs(entry):
    def run(ctx):
        v = ctx.real('fs')
        sig, (sh, saved) = _cut_pipeline(ctx)
        ff = ctx.mod('bycycle.features.features')
        fit = ctx.mod('bycycle.objs.fit')
        try:
            if entry == 'compute_features':
                f = lambda: ff.compute_features(sig, v, (8.0, 12.0), threshold_kwargs={})     # noqa: E731
            elif entry == 'compute_features_amp':
                f = lambda: ff.compute_features(sig, v, (8.0, 12.0), burst_method='amp', threshold_kwargs={})     # noqa: E731
            elif entry == 'compute_shape_features':
                f = lambda: sh.compute_shape_features(sig, v, (8.0, 12.0))     # noqa: E731
            elif entry == 'compute_band_amp':
                df = sh.compute_cyclepoints(sig, 1.0, (8.0, 12.0))
                f = lambda: sh.compute_band_amp(df, sig, v, (8.0, 12.0))     # noqa: E731
            elif entry == 'Bycycle.fit':
                bm = fit.Bycycle(thresholds={})
                f = lambda: bm.fit(sig, v, (8.0, 12.0))     # noqa: E731
            expect_valueerror(ctx, f, v <= 0, 'fs at %s' % entry)
        finally:
            sh.compute_cyclepoints = saved
    return run


def probe_fs_cyclepoints(entry):
    def run(ctx):
        v = ctx.real('fs')
        pipe.Stubs(ctx, 0)
        # a well-formed oscillation, so that a valid fs does not fail for lack of cycles
        f = [-1.0, 1.0, 1.0, -1.0, -1.0, 1.0, 1.0, -1.0, -1.0, 1.0, 1.0, -1.0]
        ctx.env.CUR.filter_signal = lambda s, fs, pt, fr, re, kw: ctx.np.array(list(f), dtype=float)
        sig = ctx.np.array(list(f), dtype=float)
        if entry == 'find_extrema':
            f = lambda: ctx.mod('bycycle.cyclepoints.extrema').find_extrema(sig, v, (8.0, 12.0), pad=False)     # noqa: E731
        else:
            f = lambda: ctx.mod('bycycle.features.cyclepoints').compute_cyclepoints(sig, v, (8.0, 12.0), pad=False)     # noqa: E731
        try:
            f()
            ctx.prove(v > 0, 'fs at %s: non-positive sampling rate accepted' % entry)
        except ValueError:
            ctx.prove(v <= 0, 'fs at %s: valid sampling rate rejected with ValueError' % entry)
        except Exception as e:
            # too short a signal for a table (IndexError) is C01's business, but only for a valid fs
            ctx.prove(v > 0, 'fs at %s: %s instead of ValueError' % (entry, type(e).__name__))
    return run


def probe_cycle_threshold(name, entry):
    def run(ctx):
        v = ctx.real('v')
        kw = {name + '_threshold': v}
        bad = ctx.disj([v < 0, v > 1])
        if entry == 'detect_bursts_cycles':
            df = _features_table(ctx)
            f = lambda: ctx.mod('bycycle.burst.cycle').detect_bursts_cycles(df, **kw)     # noqa: E731
            expect_valueerror(ctx, f, bad, '%s_threshold at %s' % (name, entry))
            return
        sig, (sh, saved) = _cut_pipeline(ctx)
        try:
            if entry == 'compute_features':
                f = lambda: ctx.mod('bycycle.features.features').compute_features(sig, 500.0, (8.0, 12.0), threshold_kwargs=kw)     # noqa: E731
            else:
                bm = ctx.mod('bycycle.objs.fit').Bycycle(thresholds={name: v})      # shorthand name
                f = lambda: bm.fit(sig, 500.0, (8.0, 12.0))     # noqa: E731
            expect_valueerror(ctx, f, bad, '%s_threshold at %s' % (name, entry))
        finally:
            sh.compute_cyclepoints = saved
    return run


def probe_burst_fraction(entry):
    def run(ctx):
        v = ctx.real('v')
        bad = ctx.disj([v < 0, v > 1])
        if entry == 'detect_bursts_amp':
            df = ctx.pd.DataFrame({'burst_fraction': [ctx.real('bf%d' % i) for i in range(3)]})
            f = lambda: ctx.mod('bycycle.burst.amp').detect_bursts_amp(df, burst_fraction_threshold=v)     # noqa: E731
            expect_valueerror(ctx, f, bad, 'burst_fraction_threshold at ' + entry)
            return
        sig, (sh, saved) = _cut_pipeline(ctx)
        try:
            f = lambda: ctx.mod('bycycle.features.features').compute_features(     # noqa: E731
                sig, 500.0, (8.0, 12.0), burst_method='amp', threshold_kwargs={'burst_fraction_threshold': v})
            expect_valueerror(ctx, f, bad, 'burst_fraction_threshold at ' + entry)
        finally:
            sh.compute_cyclepoints = saved
    return run


def probe_min_n(entry):
    def run(ctx):
        m = ctx.integer('m')
        bad = m < 0
        np = ctx.np
        if entry == 'check_min_burst_cycles':
            arr = np.array([True, True, False], dtype=bool)
            f = lambda: ctx.mod('bycycle.burst.utils').check_min_burst_cycles(arr, min_n_cycles=m)     # noqa: E731
        elif entry == 'detect_bursts_cycles':
            df = _features_table(ctx)
            f = lambda: ctx.mod('bycycle.burst.cycle').detect_bursts_cycles(df, min_n_cycles=m)     # noqa: E731
        elif entry == 'detect_bursts_amp':
            df = ctx.pd.DataFrame({'burst_fraction': [1.0, 0.5, 0.0]})
            f = lambda: ctx.mod('bycycle.burst.amp').detect_bursts_amp(df, min_n_cycles=m)     # noqa: E731
        else:
            sig, (sh, saved) = _cut_pipeline(ctx)
            try:
                method = 'amp' if entry.endswith('amp') else 'cycles'
                f = lambda: ctx.mod('bycycle.features.features').compute_features(     # noqa: E731
                    sig, 500.0, (8.0, 12.0), burst_method=method, threshold_kwargs={'min_n_cycles': m})
                expect_valueerror(ctx, f, bad, 'min_n_cycles at ' + entry)
            finally:
                sh.compute_cyclepoints = saved
            return
        expect_valueerror(ctx, f, bad, 'min_n_cycles at ' + entry)
    return run


def probe_amp_threshes(entry):
    def run(ctx):
        lo, hi = ctx.real('lo'), ctx.real('hi')
        bad = ctx.disj([lo < 0, lo > hi])
        sig, (sh, saved) = _cut_pipeline(ctx)
        try:
            if entry == 'compute_burst_fraction':
                df = sh.compute_cyclepoints(sig, 1.0, (8.0, 12.0))
                f = lambda: ctx.mod('bycycle.features.burst').compute_burst_fraction(df, sig, 500.0, (8.0, 12.0), amp_threshes=(lo, hi))     # noqa: E731
            else:
                f = lambda: ctx.mod('bycycle.features.features').compute_features(     # noqa: E731
                    sig, 500.0, (8.0, 12.0), burst_method='amp', burst_kwargs={'amp_threshes': (lo, hi)}, threshold_kwargs={})
            expect_valueerror(ctx, f, bad, 'amp_threshes at ' + entry)
        finally:
            sh.compute_cyclepoints = saved
    return run


def probe_n_cycles(ctx):
    v = ctx.real('v')
    sig, (sh, saved) = _cut_pipeline(ctx)
    try:
        f = lambda: sh.compute_shape_features(sig, 500.0, (8.0, 12.0), n_cycles=v)     # noqa: E731
        expect_valueerror(ctx, f, v < 0, 'n_cycles at compute_shape_features')
    finally:
        sh.compute_cyclepoints = saved


RANGE_PROBES = {}
for _e in ('compute_features', 'compute_features_amp', 'compute_shape_features', 'compute_band_amp', 'Bycycle.fit'):
    RANGE_PROBES['fs@' + _e] = probe_fs(_e)
for _e in ('find_extrema', 'compute_cyclepoints'):
    RANGE_PROBES['fs@' + _e] = probe_fs_cyclepoints(_e)
for _n in c06.COLS:
    for _e in ('detect_bursts_cycles', 'compute_features', 'Bycycle.fit'):
        RANGE_PROBES['%s@%s' % (_n, _e)] = probe_cycle_threshold(_n, _e)
for _e in ('detect_bursts_amp', 'compute_features'):
    RANGE_PROBES['burst_fraction@' + _e] = probe_burst_fraction(_e)
for _e in ('check_min_burst_cycles', 'detect_bursts_cycles', 'detect_bursts_amp', 'compute_features', 'compute_features_amp'):
    RANGE_PROBES['min_n_cycles@' + _e] = probe_min_n(_e)
for _e in ('compute_burst_fraction', 'compute_features'):
    RANGE_PROBES['amp_threshes@' + _e] = probe_amp_threshes(_e)
RANGE_PROBES['n_cycles@compute_shape_features'] = probe_n_cycles


# --------------------------------------------------------------------------- part D: enumerations

def enum_probe(what, valid, make_call, extra=()):
    def run(ctx):
        for val in list(valid) + BAD_ENUM + list(extra):
            ok = val in valid
            try:
                cleanup = make_call(ctx, val)
            except ValueError:
                ctx.prove(not ok, '%s=%r: valid value rejected with ValueError' % (what, val))
                continue
            except Exception as e:
                ctx.fail('%s=%r: %s' % (what, val, exc_label(e)))
                continue
            ctx.prove(ok, '%s=%r: unknown value accepted' % (what, val))
    return run


def _call_center(entry):
    def call(ctx, val):
        sig, (sh, saved) = _cut_pipeline_once(ctx)
        try:
            if entry == 'compute_shape_features':
                sh.compute_shape_features(sig, 500.0, (8.0, 12.0), center_extrema=val)
            elif entry == 'compute_features':
                ctx.mod('bycycle.features.features').compute_features(sig, 500.0, (8.0, 12.0), center_extrema=val, threshold_kwargs={})
            else:
                bm = ctx.mod('bycycle.objs.fit').Bycycle(center_extrema=val, thresholds={})
                bm.fit(sig, 500.0, (8.0, 12.0))
        finally:
            sh.compute_cyclepoints = saved
    return call


_ONCE = {}


def _cut_pipeline_once(ctx):
    """Like _cut_pipeline but re-usable several times on one path (variables declared once)."""
    key = id(ctx)
    if _ONCE.get('key') != key:
        _ONCE.clear()
        _ONCE['key'] = key
        _ONCE['table'] = c09.symbolic_table(ctx, 1, 4)
        _ONCE['x'] = [ctx.real('x%d' % i) for i in range(4)]
        _ONCE['stubs'] = pipe.Stubs(ctx, 0, relate=('same',))      # one set of stub outputs per path
    sh = ctx.mod('bycycle.features.shape')
    saved = sh.compute_cyclepoints
    table = _ONCE['table']
    sh.compute_cyclepoints = lambda s, fs, fr, **kw: ctx.pd.DataFrame({c: list(v) for c, v in table.items()})
    return ctx.np.array(list(_ONCE['x']), dtype=float), (sh, saved)


def _call_method(entry):
    def call(ctx, val):
        sig, (sh, saved) = _cut_pipeline_once(ctx)
        try:
            if entry == 'compute_features':
                ctx.mod('bycycle.features.features').compute_features(sig, 500.0, (8.0, 12.0), burst_method=val, threshold_kwargs={})
            elif entry == 'compute_burst_features':
                df = sh.compute_shape_features(sig, 500.0, (8.0, 12.0))
                ctx.mod('bycycle.features.burst').compute_burst_features(df, sig, burst_method=val,
                                                                         burst_kwargs={'fs': 500.0, 'f_range': (8.0, 12.0)})
            else:
                bm = ctx.mod('bycycle.objs.fit').Bycycle(burst_method=val, thresholds={})
                bm.fit(sig, 500.0, (8.0, 12.0))
        finally:
            sh.compute_cyclepoints = saved
    return call


def _call_direction(entry):
    def call(ctx, val):
        pd = ctx.pd
        df = pd.DataFrame({'volt_rise': [1.0, 2.0, 3.0], 'volt_decay': [2.0, 2.0, 1.0], 'period': [4, 5, 6],
                           'amp_consistency': [float('nan'), 0.5, float('nan')],
                           'period_consistency': [float('nan'), 0.5, float('nan')], 'sample_peak': [1, 2, 3]})
        fb = ctx.mod('bycycle.features.burst')
        if entry == 'compute_amp_consistency':
            fb.compute_amp_consistency(df, direction=val)
        elif entry == 'compute_period_consistency':
            fb.compute_period_consistency(df, direction=val)
        else:
            ctx.mod('bycycle.burst.utils').recompute_edge(df, 1, val)
    return call


def _call_first_extrema(ctx, val):
    # a signal with enough oscillations: filter output alternates, raw samples follow it
    st = pipe.Stubs(ctx, 0)
    f = [-1.0, 1.0, 1.0, -1.0, -1.0, 1.0, 1.0, -1.0, -1.0, 1.0, 1.0, -1.0]
    ctx.env.CUR.filter_signal = lambda sig, fs, pt, fr, re, kw: ctx.np.array(list(f), dtype=float)
    sig = ctx.np.array(list(f), dtype=float)
    ctx.mod('bycycle.cyclepoints.extrema').find_extrema(sig, 500.0, (8.0, 12.0), first_extrema=val, pad=False)


def _call_first_extrema_shape(ctx, val):
    sig, (sh, saved) = _cut_pipeline_once(ctx)
    try:
        sh.compute_shape_features(sig, 500.0, (8.0, 12.0), find_extrema_kwargs={'first_extrema': val})
    finally:
        sh.compute_cyclepoints = saved


def _call_progress(entry):
    def call(ctx, val):
        if entry == 'progress_bar':
            list(ctx.mod('bycycle.group.utils').progress_bar(iter([1, 2]), val, 2))
        else:
            gf = ctx.mod('bycycle.group.features')
            saved = gf.compute_features
            gf.compute_features = lambda sig, **k: ctx.pd.DataFrame({'a': [1]})
            try:
                gf.compute_features_2d(ctx.np.zeros((2, 3)), 500.0, (8.0, 12.0), n_jobs=1, progress=val)
            finally:
                gf.compute_features = saved
    return call


def _call_axis(dims):
    def call(ctx, val):
        gf = ctx.mod('bycycle.group.features')
        saved = (gf.compute_features, gf.epoch_df)
        pd = ctx.pd
        gf.compute_features = lambda sig, **k: pd.DataFrame({'sample_next_trough': [2], 'sample_last_trough': [0],
                                                               'sample_peak': [1], 'is_burst': [False]})
        try:
            if dims == 2:
                gf.compute_features_2d(ctx.np.zeros((2, 3)), 500.0, (8.0, 12.0), axis=val, n_jobs=1)
            else:
                gf.compute_features_3d(ctx.np.zeros((2, 2, 3)), 500.0, (8.0, 12.0), axis=val, n_jobs=1)
        finally:
            gf.compute_features, gf.epoch_df = saved
    return call


def _dims_probe(ctx):
    np = ctx.np
    fit = ctx.mod('bycycle.objs.fit')
    saved = fit.compute_features, fit.compute_features_2d, fit.compute_features_3d
    called = []
    fit.compute_features = lambda *a, **k: called.append('1d') or ctx.pd.DataFrame({'a': [1]})
    fit.compute_features_2d = lambda *a, **k: called.append('2d') or [ctx.pd.DataFrame({'a': [1]})] * 2
    fit.compute_features_3d = lambda *a, **k: called.append('3d') or [[ctx.pd.DataFrame({'a': [1]})] * 2] * 2
    try:
        for nd, shape in ((0, ()), (2, (2, 3)), (3, (2, 2, 3))):
            bm = fit.Bycycle(thresholds={})
            try:
                bm.fit(np.zeros(shape) if shape else np.array(1.0), 500.0, (8.0, 12.0))
                ctx.fail('%d-D signal accepted by Bycycle.fit' % nd)
            except ValueError:
                ctx.prove(bm.df_features is None, '%d-D signal rejected by Bycycle.fit without a table' % nd)
            except Exception as e:
                ctx.fail('Bycycle.fit %d-D: %s' % (nd, exc_label(e)))
        bm = fit.Bycycle(thresholds={})
        try:
            bm.fit(np.zeros(5), 500.0, (8.0, 12.0))
            ctx.prove(True, '1-D signal accepted by Bycycle.fit')
        except Exception as e:
            ctx.fail('Bycycle.fit 1-D: ' + exc_label(e))
        for nd, shape in ((1, (5,)), (4, (2, 2, 2, 3))):
            bg = fit.BycycleGroup(thresholds={})
            try:
                bg.fit(np.zeros(shape), 500.0, (8.0, 12.0), n_jobs=1)
                ctx.fail('%d-D array accepted by BycycleGroup.fit' % nd)
            except ValueError:
                ctx.prove(bg.df_features is None and bg.models == [], '%d-D array rejected by BycycleGroup.fit without results' % nd)
            except Exception as e:
                ctx.fail('BycycleGroup.fit %d-D: %s' % (nd, exc_label(e)))
        for shape in ((2, 3), (2, 2, 3)):
            bg = fit.BycycleGroup(thresholds={})
            try:
                bg.fit(np.zeros(shape), 500.0, (8.0, 12.0), n_jobs=1)
                ctx.prove(True, '2-D / 3-D array accepted by BycycleGroup.fit')
            except Exception as e:
                ctx.fail('BycycleGroup.fit %s: %s' % (shape, exc_label(e)))
        # plotting before fitting
        bm = fit.Bycycle(thresholds={})
        try:
            bm.plot()
            ctx.fail('plot before fit accepted')
        except ValueError:
            ctx.prove(True, 'plot before fit rejected with ValueError')
        except Exception as e:
            ctx.fail('plot before fit: ' + exc_label(e))
    finally:
        fit.compute_features, fit.compute_features_2d, fit.compute_features_3d = saved


ENUM_PROBES = {}
for _e in ('compute_shape_features', 'compute_features', 'Bycycle.fit'):
    ENUM_PROBES['center_extrema@' + _e] = enum_probe('center_extrema at ' + _e, ['peak', 'trough'], _call_center(_e), FALSY)
for _e in ('compute_features', 'compute_burst_features', 'Bycycle.fit'):
    ENUM_PROBES['burst_method@' + _e] = enum_probe('burst_method at ' + _e, ['cycles', 'amp'], _call_method(_e))
for _e in ('compute_amp_consistency', 'compute_period_consistency', 'recompute_edge'):
    ENUM_PROBES['direction@' + _e] = enum_probe('direction at ' + _e, ['both', 'next', 'last'], _call_direction(_e), FALSY)
ENUM_PROBES['first_extrema@find_extrema'] = enum_probe('first_extrema at find_extrema', ['peak', 'trough', None], _call_first_extrema)
ENUM_PROBES['first_extrema@compute_shape_features'] = enum_probe('first_extrema via compute_shape_features (fixed to peak; any override is refused)', [], _call_first_extrema_shape)
for _e in ('progress_bar', 'compute_features_2d'):
    ENUM_PROBES['progress@' + _e] = enum_probe('progress at ' + _e, [None, 'tqdm'], _call_progress(_e), FALSY)
ENUM_PROBES['axis@compute_features_2d'] = enum_probe('axis at compute_features_2d', [0, None], _call_axis(2))
ENUM_PROBES['axis@compute_features_3d'] = enum_probe('axis at compute_features_3d', [0, 1, (0, 1)], _call_axis(3))
ENUM_PROBES['dimensionality'] = _dims_probe
# first_extrema None is in BAD_ENUM as well: handled by enum_probe through "val in valid"


def run(ctx, cfg):
    np = ctx.np
    part = cfg['part']
    if part == 'A':
        sd, kd, axis = cfg['sigs_ndim'], cfg['kw_ndim'], AXES[cfg['axis']]
        ss = [ctx.integer('s%d' % i) for i in range(sd)]
        ks = [ctx.integer('k%d' % i) for i in range(kd)]
        for v in ss + ks:
            ctx.assume(v >= 1)
        gu = ctx.mod('bycycle.group.utils')
        ok = documented(sd, kd, axis, ks, ss, ctx)
        bad = (not ok) if isinstance(ok, bool) else ctx.neg(ok)
        expect_valueerror(ctx, lambda: gu.check_kwargs_shape(Standin(ss), Standin(ks), axis), bad,
                          'option-list shape vs array shape and axis')
        # None and a single dict are always fine here
        for kw in (None, {}):
            try:
                gu.check_kwargs_shape(Standin(ss), kw, axis)
            except Exception as e:
                ctx.fail('None / dict options: ' + exc_label(e))
        return
    if part == 'B':
        sd, axis, kwk = cfg['sigs_ndim'], AXES[cfg['axis']], cfg['kw']
        gf = ctx.mod('bycycle.group.features')
        shape = tuple(cfg['shape']) if 'shape' in cfg else ((2, 4) if sd == 2 else (2, 3, 4))
        arr = np.zeros(shape)
        one = lambda: {'center_extrema': 'peak'}      # noqa: E731
        want1 = shape[1] if (sd == 3 and axis == 1) else shape[0]
        if kwk == 'none':
            kw, kshape = None, None
        elif kwk == 'dict':
            kw, kshape = one(), None
        elif kwk == 'ok_list':
            kw, kshape = [one() for _ in range(want1)], (want1,)
        elif kwk == 'short_list':
            if want1 == 1:
                return          # the shorter list would be empty: not a statement about option-list shapes
            kw, kshape = [one() for _ in range(want1 - 1)], (want1 - 1,)
        elif kwk == 'long_list':
            kw, kshape = [one() for _ in range(want1 + 1)], (want1 + 1,)
        elif kwk == '2d_list':
            kw, kshape = [[one() for _ in range(shape[1])] for _ in range(shape[0])], (shape[0], shape[1])
        else:
            kw, kshape = [[one() for _ in range(shape[0])] for _ in range(shape[1])], (shape[1], shape[0])
        if sd == 2 and kwk == '2d_wrong':
            return
        valid_axis = axis in ((0, None) if sd == 2 else (0, 1, (0, 1)))
        if kshape is None:
            ok = valid_axis
        elif not valid_axis:
            ok = False
        elif sd == 2:
            ok = kshape == (shape[0],)
        elif axis == (0, 1):
            ok = kshape == (shape[0], shape[1])
        else:
            ok = kshape == (want1,)
        calls = []
        saved = gf.compute_features
        pd = ctx.pd

        def tok(sig, **k):
            calls.append(1)
            n = len(sig)
            ends = list(range(3, n, 4))
            return pd.DataFrame({'sample_next_trough': ends, 'sample_last_trough': [e - 2 for e in ends],
                                 'sample_peak': [e - 1 for e in ends], 'amp_fraction': [1.0] * len(ends),
                                 'amp_consistency': [1.0] * len(ends), 'period_consistency': [1.0] * len(ends),
                                 'monotonicity': [1.0] * len(ends)})
        gf.compute_features = tok
        try:
            f = gf.compute_features_2d if sd == 2 else gf.compute_features_3d
            try:
                f(arr, 500.0, (8.0, 12.0), compute_features_kwargs=kw, axis=axis, n_jobs=1)
                ctx.prove(ok, 'array %dD axis=%r options %s: invalid combination accepted (signals analysed: %d)' % (sd, axis, kwk, len(calls)))
            except ValueError:
                ctx.prove(not ok, 'array %dD axis=%r options %s: documented combination rejected' % (sd, axis, kwk))
                ctx.prove(ok or not calls, 'array %dD axis=%r options %s: signals were analysed before the rejection' % (sd, axis, kwk))
            except Exception as e:
                ctx.fail('array %dD axis=%r options %s: %s' % (sd, axis, kwk, exc_label(e)))
        finally:
            gf.compute_features = saved
        return
    if part == 'C':
        RANGE_PROBES[cfg['probe']](ctx)
        return
    if part == 'D':
        ENUM_PROBES[cfg['probe']](ctx)
        return
    raise RuntimeError(part)
