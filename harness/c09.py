"""C09 -- trough-centred analysis of x is the mirror image of peak-centred analysis of -x.

Both analyses run for real on ONE path: compute_features(x, 'trough') and compute_features(-x,
'peak'), both burst methods.  compute_cyclepoints is cut to a recorder that (i) proves both runs
hand it the *same* analysed signal and (ii) returns the same arbitrary C01-conforming table (it
is a function of its input), so multi-row tables are reached; the amplitude / dual-threshold
stubs follow their relational contracts (same input -> same output; the detector is even)."""
from engine.ctx import exc_label
from harness import pipe

FUNCTIONS = ['bycycle.features.features.compute_features', 'bycycle.features.shape.compute_shape_features',
             'bycycle.utils.dataframes.rename_extrema_df', 'bycycle.features.burst.compute_burst_features',
             'bycycle.features.burst.compute_amp_consistency', 'bycycle.features.burst.compute_monotonicity',
             'bycycle.features.burst.compute_burst_fraction', 'bycycle.burst.cycle.detect_bursts_cycles',
             'bycycle.burst.amp.detect_bursts_amp']
BOUNDS = {'quick': 'N = 5 (1 cycle), N = 6..7 (2 cycles), N = 8 (3 cycles): every placement of cyclepoints obeying the C01 invariant, both burst methods',
          'thorough': 'N <= 8 (1..2 cycles), N <= 9 (3 cycles)'}
OUTSIDE = 'longer signals; IEEE rounding; the cyclepoint search itself (it receives identical input in both analyses, which is asserted)'
STUBS = ['compute_cyclepoints -> arbitrary C01-conforming table, identical for identical input',
         'amp_by_time: same input -> same output', 'detect_bursts_dual_threshold: even (mask(-x) = mask(x))']
ASSUMPTIONS = ['relational stub contracts listed under stubs (neurodsp filter odd / amplitude even were verified bit-exact on the real library in the design round)']

SWAP = {'sample_peak': 'sample_trough', 'sample_last_trough': 'sample_last_peak', 'sample_next_trough': 'sample_next_peak',
        'sample_zerox_decay': 'sample_zerox_rise', 'sample_zerox_rise': 'sample_zerox_decay',
        'sample_last_zerox_decay': 'sample_last_zerox_rise',
        'time_peak': 'time_trough', 'time_trough': 'time_peak', 'time_rise': 'time_decay', 'time_decay': 'time_rise',
        'volt_rise': 'volt_decay', 'volt_decay': 'volt_rise', 'volt_peak': 'volt_trough', 'volt_trough': 'volt_peak'}
NEGATE = {'volt_peak', 'volt_trough'}
ONE_MINUS = {'time_rdsym', 'time_ptsym'}


def configs(tier):
    q = tier == 'quick'
    out = []
    for rows, ns in ((1, [5] if q else [5, 6, 8]), (2, [6, 7] if q else [6, 7, 8]), (3, [8] if q else [8, 9])):
        for n in ns:
            for method in ('cycles', 'amp'):
                out.append({'rows': rows, 'n': n, 'method': method})
    # both analyses share one find_extrema_kwargs dictionary (the natural way to write the comparison)
    out.append({'rows': 1, 'n': 5, 'method': 'cycles', 'shared_options': True})
    # a recording stored as unsigned / 16-bit integers: its trough-centred analysis mirrors the peak-centred analysis of
    # the (mathematically) negated signal
    for dt in ('uint8', 'int16'):
        out.append({'rows': 1, 'n': 5, 'method': 'cycles', 'dtype': dt})
    # tables returned without the sample columns must mirror each other as well
    for method in ('cycles', 'amp'):
        out.append({'rows': 2, 'n': 6, 'method': method, 'return_samples': False})
    return out


def cost(cfg):
    return (9.0 if cfg['method'] == 'cycles' else 3.0) ** cfg['n']


def split(cfg, tier):
    return 48 if cfg['n'] >= 7 else None


def symbolic_table(ctx, rows, n, tag=''):
    """Arbitrary peak-centred cyclepoint table under the C01 invariant (positions concretised)."""
    k = 2 * rows + 1
    ps = [ctx.integer('%se%d' % (tag, j)) for j in range(k)]
    ctx.assume(ps[0] >= 0)
    for j in range(1, k):
        ctx.assume(ps[j] > ps[j - 1])
    ctx.assume(ps[-1] <= n - 1)
    pos = [ctx.toint(p) for p in ps]
    lm = ctx.integer(tag + 'lm')
    ctx.assume(lm >= 0)
    ctx.assume(lm <= pos[0])
    mids = [ctx.toint(lm)]
    for j in range(k - 1):
        m = ctx.integer('%smid%d' % (tag, j))
        ctx.assume(m >= pos[j])
        ctx.assume(m <= pos[j + 1])
        mids.append(ctx.toint(m))
    return {'sample_peak': [pos[2 * r + 1] for r in range(rows)],
            'sample_last_zerox_decay': [mids[2 * r] for r in range(rows)],
            'sample_zerox_decay': [mids[2 * r + 2] for r in range(rows)],
            'sample_zerox_rise': [mids[2 * r + 1] for r in range(rows)],
            'sample_last_trough': [pos[2 * r] for r in range(rows)],
            'sample_next_trough': [pos[2 * r + 2] for r in range(rows)]}


def thresholds_for(method):
    if method == 'cycles':
        return {'amp_fraction_threshold': 0.25, 'amp_consistency_threshold': 0.5,
                'period_consistency_threshold': 0.5, 'monotonicity_threshold': 0.5, 'min_n_cycles': 1}
    return {'burst_fraction_threshold': 0.5, 'min_n_cycles': 1}


def run(ctx, cfg):
    np, pd = ctx.np, ctx.pd
    rows, n, method = cfg['rows'], cfg['n'], cfg['method']
    ff = ctx.mod('bycycle.features.features')
    sh = ctx.mod('bycycle.features.shape')
    if cfg.get('dtype'):
        x, sig_t = ctx.int_signal(['x%d' % i for i in range(n)], cfg['dtype'])
    else:
        x = [ctx.real('x%d' % i) for i in range(n)]
        sig_t = np.array(list(x), dtype=float)
    table = symbolic_table(ctx, rows, n)
    st = pipe.Stubs(ctx, 0, relate=('same',))
    seen = []

    def fake_cp(s, fs, f_range, **kw):
        seen.append(ctx.tolist(s))
        return pd.DataFrame({c: list(v) for c, v in table.items()})
    saved = sh.compute_cyclepoints
    sh.compute_cyclepoints = fake_cp
    fek = {'filter_kwargs': {'n_cycles': 3}, 'boundary': 0} if cfg.get('shared_options') else None
    try:
        t_tab = ff.compute_features(sig_t, 500.0, (8.0, 12.0), center_extrema='trough',
                                    burst_method=method, threshold_kwargs=thresholds_for(method), find_extrema_kwargs=fek,
                                    return_samples=cfg.get('return_samples', True))
        p_tab = ff.compute_features(np.array([-v for v in x], dtype=float), 500.0, (8.0, 12.0), center_extrema='peak',
                                    burst_method=method, threshold_kwargs=thresholds_for(method), find_extrema_kwargs=fek,
                                    return_samples=cfg.get('return_samples', True))
    except Exception as e:
        ctx.fail(exc_label(e))
        return
    finally:
        sh.compute_cyclepoints = saved
    if not ctx.prove(len(seen) == 2 and len(seen[0]) == n and len(seen[1]) == n, 'cyclepoints searched once per analysis'):
        return
    if not ctx.prove_all([(ctx.eq(a, b), 'both analyses search cyclepoints on the same (negated) signal')
                          for a, b in zip(seen[0], seen[1])]):
        return
    if method == 'amp':
        ctx.prove(len(st.dual) == 2, 'detector run once per analysis')
        if len(st.dual) == 2:
            ctx.prove_all([(ctx.eq(a, -b), 'detector inputs are negatives of each other')
                           for a, b in zip(st.dual[0]['sig'], st.dual[1]['sig'])])
    tc, pc = pipe.table_cols(ctx, t_tab), pipe.table_cols(ctx, p_tab)
    ctx.obs('trough', tc)
    ctx.obs('peak', pc)
    if not ctx.prove(len(t_tab) == len(p_tab) == rows, 'same number of cycles'):
        return
    obl = [(sorted(tc.keys()) == sorted(SWAP.get(c, c) for c in pc), 'same columns once peak/trough and rise/decay names are swapped')]
    if cfg.get('return_samples', True) is False:
        obl.append((not [c for c in list(tc) + list(pc) if c.startswith('sample_')], 'no sample_* column when return_samples is False'))
    if not ctx.prove_all(obl):
        return
    obl = []
    for c, vals in pc.items():
        tcol = tc[SWAP.get(c, c)]
        for i in range(rows):
            a, b = vals[i], tcol[i]
            if c in ONE_MINUS:
                obl.append((ctx.eq(b, 1 - a), '%s mirrored (one minus)' % c))
            elif c in NEGATE:
                obl.append((ctx.eq(b, -a), 'extremum voltages negated and swapped'))
            elif c == 'is_burst':
                obl.append((a == b, 'identical is_burst labels'))
            else:
                obl.append((ctx.eq(a, b), 'column %s identical after renaming' % c))
    ctx.prove_all(obl)
