"""Op-level conformance of the numpy / pandas models against the real libraries (DESIGN.md 2.2).

Each snippet is evaluated twice -- with the models bound as np / pd (python3-vt) and with the real
numpy / pandas (/venv/bin/python) -- on concrete vectors chosen to hit ties, negatives, NaN, empty
inputs, bool/int/float mixes, views vs copies, read-only flags and copy-on-write.  Value, dtype
kind, shape, writeability and exception type must agree.  Run:  conformance.py [--fast]"""
import sys
import os
import json
import math
import subprocess

ROOT = os.path.dirname(os.path.dirname(os.path.abspath(__file__)))

SNIPPETS = [
    # --- numpy: creation / dtype / indexing
    "np.array([1, 2, 3])", "np.array([1, 2.5, 3])", "np.array([True, False])", "np.array([])", "np.zeros(3)",
    "np.zeros(3, dtype=int)", "np.zeros(2, dtype=bool)", "np.zeros(3) * np.nan", "np.arange(5)", "np.arange(2, 11, 3)",
    "np.arange(0, 1.0, 0.25)", "np.arange(0, 7 / 2, 1 / 2)", "np.arange(3, 3)", "np.array([[1, 2, 3], [4, 5, 6]]).shape",
    "np.array([[1, 2, 3], [4, 5, 6]])[1]", "np.array([[1, 2, 3], [4, 5, 6]])[:, 1]", "np.array([[1, 2, 3], [4, 5, 6]]).flatten()",
    "np.array([[1, 2, 3], [4, 5, 6]]).reshape(3, 2)", "np.swapaxes(np.arange(12).reshape(2, 3, 2), 0, 1)",
    "np.arange(12).reshape(2, 3, 2).reshape(6, 2)", "np.zeros((2, 3)).tolist()", "len(np.zeros((4, 2)))",
    "np.arange(10)[2:7:2]", "np.arange(10)[::-1]", "np.arange(10)[-3:]", "np.arange(10)[np.array([1, 3, 3])]",
    "np.arange(5)[np.array([True, False, True, False, True])]", "np.arange(5)[[0, 4]]", "np.arange(5)[-1]",
    "np.shape(np.array([{'a': 1}, {'b': 2}]))", "np.array([[{'a': 1}], [{'b': 2}]]).ndim", "np.array([{'a': 1}, {'b': 2}]).flatten().tolist()",
    "np.array(['x', 'y']).flatten().tolist()",
    # --- numpy: views / writes / read-only
    "_w1()", "_w2()", "_w3()", "_w4()", "_w5()", "_w6()",
    # --- numpy: arithmetic / comparison / logic
    "np.array([1, 2, 3]) - 1", "np.array([1, 2, 3]) / 2", "np.array([1, 2, 3]) / 0", "np.array([0.0, -1.0]) / 0",
    "np.array([1, 2, 3]) > 2", "np.array([1.0, np.nan]) > 0", "np.array([1.0, np.nan]) == np.nan",
    "np.array([True, False]) & ~np.array([True, True])", "~np.array([True, False])", "np.array([1, 2]) == ~np.array([1, 2])",
    "np.logical_and(np.array([1, 5, 9]) > 2, np.array([1, 5, 9]) < 9)", "-np.array([1.0, -2.0])", "np.abs(np.array([-1.5, 2]))",
    "1 - np.array([0.25, 0.5])", "np.array([True, True]) + np.array([True, False])", "np.array([3, 4]) * np.array([True, False])",
    # --- numpy: reductions
    "np.sum(np.abs(np.array([0.0, 0.0])))", "np.mean(np.array([True, False, True]))", "np.mean([0.5, 0.25])", "np.mean(np.array([]))",
    "np.min([3.0, 1.0])", "np.max([3.0, np.nan])", "np.nanmin([np.nan, 2.0, -np.inf])", "np.nanmin([1.0, 0.5])",
    "np.argmax(np.array([1, 3, 3, 2]))", "np.argmin(np.array([2, 1, 1]))", "np.argmax(np.array([1.0, np.nan, 5.0]))",
    "np.median([1, 2])", "np.median(np.array([5, 1, 3]))", "int(np.median(np.array([0, 3])))", "np.isnan([np.nan, 1.0]).all()",
    "np.isnan(np.array([np.nan, 1.0]))", "(np.array([1.0, -1.0, np.nan]) < 0).any()", "np.unique(np.array([3, 1, 3, 2]))",
    # --- numpy: diff / nonzero / where / pad / append / interp
    "np.diff(np.array([1, 4, 9]))", "np.diff(np.array([True, False, False, True]))", "np.diff(np.array([True, False, True]), prepend=0, append=0)",
    "np.diff(np.array([], dtype=bool), prepend=0, append=0)", "np.flatnonzero(np.array([0, 2, 0, -1]))", "np.array([False, True, True]).nonzero()[0]",
    "np.where(np.array([1, -1, 2]) < 0)[0]", "np.where(np.array([True, False]) == ~np.array([False, False]))[0]",
    "np.pad(np.array([1.0, 2.0]), 2, mode='constant')", "np.pad(np.array([1, 2]), int(np.ceil(3 / 2)), mode='constant')",
    "np.append(np.array([1, 2]), 5)", "np.append(5, np.array([1, 2]))", "np.append(np.array([]), [1.5, 2.5])", "np.append(np.array([1, 2])[0], np.array([7, 8]))",
    "np.interp(np.arange(6), np.array([1, 3, 4]), np.array([0.0, 2.0, -1.0]))", "np.interp(np.arange(3), np.array([1]), np.array([7.0]))",
    "np.add.reduceat(np.array([1.0, 2.0, 4.0, 8.0, 16.0]), np.array([0, 2, 3]))", "np.add.reduceat(np.arange(6), np.array([1, 4])) / np.diff(np.array([1, 4, 6]))",
    "np.allclose(np.array([1e-9, -1e-9]), 0)", "np.allclose(np.array([1e-7, 0.0]), 0)", "np.isclose(np.array([1.0, 2.0, np.nan]), np.array([1.0 + 1e-9, 2.1, np.nan]))",
    "np.linspace(0, 7 / 3, 7, endpoint=False)", "np.linspace(0, 1, 5)", "np.linspace(2.0, 3.0, 1)",
    "_l1()", "_l2()", "_l3()", "_l4()", "_l5()", "_l6()", "_l7()",
    "np.full_like(np.array([1.5, 2.5]), np.nan)", "np.zeros_like(np.array([1, 2, 3]), shape=2)", "np.round(np.array([1.23456, -0.5, 2.5]), 2)",
    "pd.Series([0.123456789012, 1.5]).round(decimals=9).tolist()",
    "np.abs(np.diff(np.array([[1.0, 5.0], [4.0, 3.0], [0.0, 6.0]]), axis=0))", "np.diff(np.array([[1, 5, 2], [4, 3, 9]]), axis=1)", "_u1()",
    "np.searchsorted(np.array([1, 3, 3, 7]), np.array([0, 3, 4, 9]), side='right')", "np.searchsorted(np.array([1, 3, 3, 7]), 3)",
    "np.zeros(3)[np.array([])]", "np.zeros(3)[np.array([], dtype=int)]", "np.array(sorted(set([]) | set([])))", "np.unique(np.append(np.array([], dtype=int), np.array([], dtype=int)))",
    "np.roll(np.array([1, 2, 3, 4]), 1)", "np.roll(np.array([True, False, False]), -1)", "np.roll(np.array([]), 2)", "np.roll(np.arange(5), 7)",
    "list(pd.DataFrame({'b': [1], 'a': [2], 'c': [3]}).columns.intersection(['c', 'zz', 'b']))", "list(pd.DataFrame({'b': [1], 'a': [2], 'c': [3]}).columns.difference(['a']))",
    "pd.DataFrame({'b': [1], 'a': [2]}).columns.isin(['a', 'q'])",
    "_v1()", "_v2()", "_v3()", "pd.Series(True, index=[3, 4, 5]).tolist()", "(pd.Series(True, index=pd.DataFrame({'a': [1.0, 2.0]}).index) & (pd.DataFrame({'a': [1.0, 2.0]})['a'] > 1)).tolist()", "pd.Series(0.5, index=range(2)).tolist()", "np.negative(np.array([1, -2]))", "np.negative([1.5, 0.0])", "np.negative(np.array([0, 1, 255], dtype=np.uint8)).tolist()", "_fl()",
    "np.setdiff1d(np.array([5, 1, 3, 1]), np.array([3]))", "np.setdiff1d(np.array([2, 4]), np.array([]))", "np.setdiff1d(np.array([], dtype=int), np.array([1]))",
    "np.intersect1d(np.array([5, 1, 3, 1]), [1, 5, 9])", "np.union1d(np.array([3, 1]), [2, 3])", "np.bincount(np.array([0, 2, 2, 5]))", "np.bincount(np.array([1]), minlength=4)",
    "np.bincount(np.array([], dtype=int))", "np.cumsum(np.bincount(np.array([0, 0, 2])))",
    "np.isin(np.array([1, 5, 2]), [2, 1])", "np.isin(np.array([1.0, 2.0]), np.array([]))", "np.isin([3, 4], [4], invert=True)", "np.take(np.array([5, 6, 7]), [2, 0])",
    "np.take(np.array([5, 6, 7]), 1)", "np.repeat(np.array([1, 2]), 3)", "np.repeat(np.array([]), 2)", "np.ediff1d(np.array([1, 4, 9]))",
    "np.argsort(np.array([3, 1, 2]))", "np.argsort(np.array([2.0, 1.0, 2.0, 1.0]))", "np.argsort(np.array([]))", "np.argsort(np.array([True, False, True]))",
    "_n1()", "_n2()", "_n3()", "_n4()", "_n5()", "_n6()", "_n7()", "_n8()", "_n9()",
    "np.ceil(3 / 2)", "int(np.ceil(0 / 2))", "np.array([2, 9, 4])[0::2]", "np.array([5, 7, 9])[np.array([True, False, True])] - 2",
    # --- pandas
    "pd.DataFrame({'a': [1, 2, 3], 'b': [1.5, 2.5, 3.5]}).to_dict('records')", "len(pd.DataFrame())", "list(pd.DataFrame().columns)",
    "pd.DataFrame.from_dict({'p': np.array([3, 1]), 'q': [0.5, 1.5]})['p'].values", "_p1()", "_p2()", "_p3()", "_p4()", "_p5()", "_p6()",
    "_p7()", "_p8()", "_p9()", "_p10()", "_p11()", "_p12()", "_p13()", "_p14()", "_p15()", "_p16()", "_p17()",
    "(-pd.DataFrame({'a': [1.0, -2.0], 'b': [3.0, 0.5]})).max(axis=1).tolist()", "(-pd.DataFrame({'a': [1.0, -2.0], 'b': [3.0, 0.5]})[['a', 'b']]).min(axis=1).tolist()",
    "(pd.DataFrame({'a': [1.0, 2.0], 'b': [3.0, 5.0]}) * 2).to_dict('records')", "pd.DataFrame({'a': [1.0, 4.0], 'b': [3.0, 0.5]}).max().tolist()",
    "pd.Series([3.0, 1.0, 3.0, np.nan]).rank().tolist()", "pd.Series([2, 2, 2]).rank().tolist()", "pd.Series([5, 1, 5, 1, 3]).rank().tolist()",
    "(pd.Series([1.0, np.nan, 3.0]) > 2).tolist()", "((pd.Series([1, 5]) > 2) & (pd.Series([1, 5]) < 9)).to_numpy().flags.writeable",
    "(1 - pd.Series([0.25, 1.0])).tolist()", "(pd.Series([4, 9]) / pd.Series([2, 0])).tolist()", "(pd.Series([0, 1]) / pd.Series([0, 2])).tolist()",
    "np.array([10, 20, 30, 40])[pd.Series([3, 0])]", "(-pd.Series([1.5, -2])).tolist()",
]

PRELUDE = r'''
def _w1():
    a = np.arange(6); b = a[1:4]; b[0] = 99; return a
def _w2():
    a = np.arange(6); b = a[np.array([1, 2])]; b[0] = 99; return a
def _w3():
    a = np.arange(6).reshape(2, 3); r = a[1]; r[:] = 0; return a
def _w4():
    a = np.array([True, True, False, True]); a[1:3] = False; return a
def _w5():
    a = np.zeros(4); a[np.array([0, 2])] = -1.5; a[np.where(a < 0)[0]] = 0; return a
def _w6():
    a = np.arange(4.0); a *= -1; return a
def _l1():
    a = np.arange(6).reshape(2, 3); f = np.asfortranarray(a)
    return [f.tolist(), f.flags.c_contiguous, f.flags.f_contiguous, f.reshape(6, order='A').tolist(), f.reshape(6).tolist(),
            f.ravel(order='K').tolist(), f.ravel().tolist(), a.T.ravel(order='K').tolist(), a.T.reshape(6, order='A').tolist()]
def _l2():
    a = np.arange(24).reshape(2, 3, 4); f = np.asfortranarray(a)
    return [np.reshape(f, (6, 4), order='A').tolist(), np.reshape(a, (6, 4), order='A').tolist(), f.reshape(6, 4).tolist()]
def _l3():
    x = np.array([True, True, False, True, True, True]); v = x[::2]; r = np.ravel(v); r[0] = False
    return [x.tolist(), v.flags.c_contiguous]
def _l4():
    x = np.array([True, True, False, True]); r = np.ravel(x); r[0] = False
    return x.tolist()
def _l5():
    x = np.arange(6); v = np.flip(x); r = np.ravel(v); r[0] = 99
    return [x.tolist(), v.tolist()]
def _l6():
    m = np.arange(6).reshape(3, 2); col = m[:, 1]; r = np.ravel(col); r[0] = 77
    return [m.tolist(), col.flags.c_contiguous]
def _l7():
    a = np.arange(6).reshape(2, 3)
    return [a.T.flatten().tolist(), a.T.flatten(order='K').tolist(), a.flatten(order='F').tolist(), np.ravel(a.T, order='K').tolist()]
def _p17():
    df = pd.concat([pd.DataFrame({'a': [1.0, 2.0]}), pd.DataFrame({'a': [3.0, 4.0]})], axis=0)
    m = np.array([True, False, False, True])
    return [df.loc[df.index[m]]['a'].tolist(), df[m]['a'].tolist(), list(df.index[m]), df.loc[[1]]['a'].tolist()]
def _fl():
    if np.__name__ == 'numpy':
        from scipy.fft import next_fast_len          # real side
    else:
        from models.env import next_fast_len         # model side
    return [next_fast_len(n) for n in range(0, 200)] + [next_fast_len(n) for n in (1000, 4999, 5003, 10007)]
def _v1():
    s = pd.Series([1.0, 4.0, 2.0, 8.0]); i = pd.Series([3, 1, 2])
    return [s.shift(1).tolist(), s.shift(-1).tolist(), s.shift(0).tolist(), s.shift(5).tolist(), i.shift(1).tolist(), i.shift(-2).tolist(), i.shift(1, fill_value=0).tolist(),
            s.diff().tolist(), i.diff().tolist(), s.cumsum().tolist(), i.cumsum().tolist(), pd.Series([True, False, True]).cumsum().tolist(), pd.Series([], dtype=float).shift(1).tolist()]
def _v2():
    s = pd.Series([1.0, -4.0, float('nan'), 8.0]); i = pd.Series([3, 1, 2])
    return [s.clip(lower=0).tolist(), s.clip(upper=2).tolist(), s.clip(0, 2).tolist(), i.clip(2, 2).tolist(), i.isin([1, 3]).tolist(), s.isin([8.0]).tolist(), i.isin([]).tolist(),
            i.between(1, 2).tolist(), i.between(1, 3, inclusive='neither').tolist(), s.between(-4, 1).tolist()]
def _v3():
    s = pd.Series([1.0, -4.0, float('nan'), 8.0]); c = s > 0
    return [s.where(c).tolist(), s.where(c, 0.0).tolist(), s.mask(c, -1.0).tolist(), s.fillna(7.0).tolist(), s.where(c, s * 2).tolist()]
def _n1():
    a = np.array([30000, -30000, 100], dtype=np.int16); b = np.array([-30000, 30000, 27], dtype=np.int16)
    r = a - b
    return [r.tolist(), str(r.dtype), np.diff(a).tolist(), str(np.diff(a).dtype), (a + b).tolist(), (-a).tolist(), np.abs(np.array([-32768, 5], dtype=np.int16)).tolist()]
def _n2():
    u = np.array([0, 1, 65535], dtype=np.uint16)
    return [(-u).tolist(), str((-u).dtype), (u + 1).tolist(), str((u + 1).dtype), (u - 2).tolist(), (u * 2).tolist(), (u / 2).tolist()]
def _n3():
    a = np.array([200, 100], dtype=np.uint8); b = np.array([100, 100], dtype=np.uint8); c = np.array([-100, 100], dtype=np.int8)
    return [(a + b).tolist(), str((a + b).dtype), (a + c).tolist(), str((a + c).dtype), (a + np.array([100, 100])).tolist(),
            (a + np.array([100, 200], dtype=np.uint16)).tolist(), str((a + np.array([1, 2], dtype=np.uint16)).dtype), (a > b).tolist(), (a * 2.0).tolist()]
def _n4():
    a = np.array([30000, 30000, -5], dtype=np.int16)
    return [int(a[0] + a[1]), float((a[0] + a[1]) / 2.), int(a[0] - a[2]), int(a[0] + 5), float(a[0]) + float(a[1]), int(a[0]) + int(a[1]), int(-a[2]), int(a[0] * 2)]
def _n5():
    a = np.array([30000, 30000, 30000], dtype=np.int16)
    return [int(np.sum(a)), float(np.mean(a)), np.cumsum(a).tolist(), int(a.sum()), int(np.max(a)), np.append(a, a).tolist(), str(np.append(a, a).dtype),
            str(np.concatenate([a, np.array([1])]).dtype == np.int16), a[1:].tolist(), str(a[::2].dtype), str(a.copy().dtype), a.astype(float).tolist()]
def _n6():
    x = np.array([70000, -70000, 5]).astype(np.int16); z = np.zeros(2, dtype=x.dtype); z[0] = 3.7; z[1] = -3.7
    return [x.tolist(), z.tolist(), str(z.dtype), str(np.zeros_like(x).dtype), (x.dtype == np.int16), (x.dtype == np.int32), np.asarray(x, dtype=float).tolist()]
def _n7():
    s = pd.Series([10, 200, 250]); u = pd.to_numeric(s, downcast='unsigned'); t = pd.to_numeric(pd.Series([100, 65500, 7]), downcast='unsigned')
    n = pd.to_numeric(pd.Series([-1, 5]), downcast='unsigned'); i = pd.to_numeric(pd.Series([-100, 100]), downcast='integer')
    return [str(u.dtype), (u + u).tolist(), str((u + u).dtype), (u - 251).tolist(), (u / (u + u)).tolist(), str(t.dtype), (t + t).tolist(), (u + t).tolist(), str((u + t).dtype),
            (n + n).tolist(), (i + i).tolist(), (u + pd.Series([100, 100, 100])).tolist(), (u * 2).tolist()]
def _n8():
    a = np.array([30000, -30000], dtype=np.int16)
    s = pd.Series(a); df = pd.DataFrame({'v': a}); df['w'] = s
    return [(s + s).tolist(), str(s.dtype), (df['v'] - df['w'] - df['w']).tolist(), str(df['w'].dtype), (-s).tolist(), (s.values + s.values).tolist()]
def _n9():
    a = np.array([1, 2, 3], dtype=np.int16); i = pd.Series([2, 0])
    return [a[i].tolist(), str(a[i].dtype), (a[i] - a[pd.Series([0, 2])]).tolist(), np.where(a > 1, a, a).tolist(), np.sort(a).tolist(), str(np.sort(a).dtype), a[np.array([0, 1])].tolist()]
def _u1():
    r, d = np.abs(np.diff(np.array([[1.0, 5.0], [4.0, 3.0], [0.0, 6.0]]), axis=0))
    return [r.tolist(), d.tolist()]
def _p1():
    df = pd.DataFrame({'a': [1.0, 2.0, 3.0]}); v = df['a'].values
    try:
        v[0] = 5
        return 'written'
    except ValueError:
        return 'read-only'
def _p2():
    import warnings
    df = pd.DataFrame({'a': [1.0, 2.0, 3.0]})
    with warnings.catch_warnings():
        warnings.simplefilter('ignore')
        df['a'][1] = 100
    return df['a'].tolist()
def _p3():
    df = pd.DataFrame({'a': [1, 2, 3], 'b': [4, 5, 6]}); sub = df[np.array([True, False, True])]
    sub['c'] = sub['a'] - 1
    return [list(df.columns), sub.to_dict('records'), list(sub.index)]
def _p4():
    df = pd.DataFrame({'a': [1, 2, 3]}); e = df.iloc[range(1, 3)].copy(); e.reset_index(drop=True, inplace=True)
    return [list(e.index), e['a'].tolist(), list(df.index)]
def _p5():
    df = pd.DataFrame({'x': [1, 2], 'y': [3.0, 4.0]}); df.rename(columns={'x': 'y', 'y': 'x'}, inplace=True)
    return [list(df.columns), df.to_dict('records')]
def _p6():
    a = pd.DataFrame({'x': [1, 2]}); b = pd.DataFrame({'y': [3.0, 4.0]})
    return [pd.concat((a, b), axis=1).to_dict('records'), pd.concat([a, a], axis=0)['x'].tolist(), list(pd.concat([a, a], axis=0).index)]
def _p7():
    df = pd.DataFrame({'sample_a': [1], 'v': [2.0], 'sample_b': [3]})
    d = df.drop([c for c in df.columns if c.startswith('sample_')], axis=1)
    p = df.pop('v')
    return [list(d.columns), list(df.columns), p.tolist()]
def _p8():
    df = pd.DataFrame(); df['q'] = [1, 2, 3]; df['r'] = np.array([1.0, 2.0, 3.0]); df['s'] = 7
    return df.to_dict('records')
def _p9():
    df = pd.DataFrame({'a': [1.0, 2.0, 3.0], 'f': [True, False, True]})
    return [df.loc[df['f']].index.tolist(), df.loc[df['f']]['a'].tolist()]
def _p10():
    df = pd.DataFrame({'a': [1.0, 2.0, 3.0]}); df.loc[1, 'a'] = 9.5
    return df['a'].tolist()
def _p11():
    df = pd.DataFrame({'a': [1.0, 2.0, 3.0]}); c = df.copy(); c['a'] = c['a'] * 2
    return [df['a'].tolist(), c['a'].tolist()]
def _p12():
    df = pd.DataFrame({'a': [1, 2, 3]}); e = df[df['a'].values >= 5]
    e['a'] = e['a'] - 1
    return [len(e), list(e.columns), e[(e['a'] >= 0) & (e['a'] < 9)].to_dict('records'), list(e[(e['a'] >= 0) & (e['a'] < 9)].columns)]
def _p13():
    df = pd.DataFrame({'a': [3, 1, 2]}); s = df['a'] > 1
    x = s.to_numpy(copy=True); x[0] = False
    return [x.tolist(), x.flags.writeable, s.tolist()]
def _p14():
    dfs = [pd.DataFrame({'v': [1.0, 2.0]}), pd.DataFrame({'v': [3.0]})]
    for i, d in enumerate(dfs):
        d['Label'] = np.array(['a', 'b'])[i]
    return pd.concat(dfs, axis=0).to_dict('records')
def _p15():
    df = pd.DataFrame({'a': [1, 2], 'b': [0.5, 1.5]})
    return ['a' in df.columns, 'z' in df.columns, list(df.keys()), list(df.columns.values), df['b'].values[0], isinstance(df.to_dict('records')[0]['a'], int)]
def _p16():
    from copy import deepcopy
    df = pd.DataFrame({'f': [True, False]}); v = deepcopy(df['f'].values); v[0] = False
    return [v.tolist(), df['f'].tolist()]
'''


def norm(x):
    """Canonical JSON-able form of a result (value + structural facts)."""
    name = type(x).__name__
    if name == 'ndarray':
        kind = getattr(x, 'kind', None) or {'b': 'b', 'i': 'i', 'u': 'i', 'f': 'f'}.get(x.dtype.kind, 'O')
        return {'array': norm(x.tolist()), 'shape': list(x.shape), 'kind': kind}
    if name == 'Series':
        return {'series': norm(x.tolist())}
    if isinstance(x, dict):
        return {str(k): norm(v) for k, v in x.items()}
    if isinstance(x, (list, tuple)):
        return [norm(v) for v in x]
    if isinstance(x, bool) or name in ('bool_', 'bool'):
        return bool(x)
    if isinstance(x, (int,)) or name.startswith('int'):
        return int(x)
    if isinstance(x, float) or name.startswith('float'):
        f = float(x)
        if f != f:
            return 'nan'
        if math.isinf(f):
            return 'inf' if f > 0 else '-inf'
        return round(f, 12)
    if x is None or isinstance(x, str):
        return x
    return repr(x)


def evaluate(np, pd):
    import warnings
    scope = {'np': np, 'pd': pd}
    exec(PRELUDE, scope)
    out = []
    for snip in SNIPPETS:
        try:
            with warnings.catch_warnings():
                warnings.simplefilter('ignore')
                out.append(['ok', norm(eval(snip, scope))])
        except BaseException as e:
            out.append(['exc', type(e).__name__])
    return out


def main(argv):
    if '--side' in argv and argv[argv.index('--side') + 1] == 'real':
        import numpy
        import pandas
        print(json.dumps(evaluate(numpy, pandas)))
        return 0
    sys.path.insert(0, ROOT)
    sys.dont_write_bytecode = True
    from models import np_model, pd_model
    mine = evaluate(np_model, pd_model)
    r = subprocess.run(['/venv/bin/python', os.path.abspath(__file__), '--side', 'real'], capture_output=True, text=True)
    if r.returncode != 0:
        print("HARNESS-ERROR: real-side conformance run failed: " + r.stderr[-400:])
        return 3
    real = json.loads(r.stdout.strip().splitlines()[-1])
    bad = 0
    for snip, a, b in zip(SNIPPETS, mine, real):
        if a != b:
            bad += 1
            print("CONFORMANCE MISMATCH: %s\n   model: %s\n   real : %s" % (snip, json.dumps(a)[:300], json.dumps(b)[:300]))
    print("conformance: %d snippets, %d mismatches" % (len(SNIPPETS), bad))
    return 3 if bad else 0


if __name__ == '__main__':
    sys.exit(main(sys.argv[1:]))
