"""Real side (runs under /venv/bin/python): executes a harness concretely against the real
bycycle on the real numpy / pandas, with stubs only at the neurodsp boundary.

Protocol: one JSON object per line on stdin -> one JSON object per line on stdout.
request : {"harness": "c08", "cfg": {...}, "values": {...encoded...}, "want_obs": bool}
response: {"failed": [labels], "obs": {...}, "error": str|None, "assume_violated": str|None}
"""
import sys
import os
import json
import warnings
import traceback
import importlib

HERE = os.path.dirname(os.path.dirname(os.path.abspath(__file__)))
sys.path.insert(0, HERE)
sys.dont_write_bytecode = True

from engine import ctx as C   # noqa: E402
from models import env        # noqa: E402


def handle(req):
    h = importlib.import_module('harness.' + req['harness'])
    values = {k: C.dec(v) for k, v in req['values'].items()}
    rc = C.RealCtx(values)
    env.reset()
    out = {'failed': [], 'obs': None, 'error': None, 'assume_violated': None}
    try:
        with warnings.catch_warnings():
            warnings.simplefilter('ignore')
            h.run(rc, req['cfg'])
    except C.AssumeViolated as e:
        out['assume_violated'] = str(e)
    except Exception as e:   # harness itself failed
        out['error'] = ''.join(traceback.format_exception(type(e), e, e.__traceback__))[-3000:]
    out['failed'] = list(rc.failed)
    if req.get('want_obs', True):
        try:
            out['obs'] = C.enc(rc.observations)
        except TypeError as e:
            out['error'] = (out['error'] or '') + ' obs-encode: %s' % e
    return out


def main():
    # the protocol owns the original stdout; anything the code under test prints goes to stderr
    proto = os.fdopen(os.dup(1), 'w')
    os.dup2(2, 1)
    sys.stdout = sys.stderr
    env.install_real()
    proto.write(json.dumps({'ready': True, 'hashes': env.source_hashes()}) + '\n')
    proto.flush()
    for line in sys.stdin:
        line = line.strip()
        if not line:
            continue
        try:
            req = json.loads(line)
            resp = handle(req)
        except BaseException as e:   # never die silently
            resp = {'failed': [], 'obs': None, 'assume_violated': None,
                    'error': 'server: ' + ''.join(traceback.format_exception(type(e), e, e.__traceback__))[-3000:]}
        proto.write(json.dumps(resp) + '\n')
        proto.flush()


if __name__ == '__main__':
    main()
