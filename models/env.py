"""Environment of bycycle: contract stubs for neurodsp / scipy / matplotlib / Pool.

This module is imported on BOTH sides:
* symbolic side (python3-vt): ``install_symbolic()`` registers fake ``numpy``,
  ``pandas``, ``neurodsp.*``, ``scipy.stats``, ``matplotlib.pyplot``, ``tqdm``
  modules in ``sys.modules`` and then ``/repo/bycycle`` is imported unchanged;
* real side (/venv/bin/python): ``install_real()`` imports the real bycycle and
  rebinds the same delegating functions at the neurodsp boundary only.

Every stub delegates to ``CUR`` (an ``EnvState``) which the harness fills per path.
Each stub and its contract is part of every claim that uses it (DESIGN.md 2.3).
"""
import sys
import types
import hashlib
import os

REPO = os.environ.get('VCHECK_REPO', '/repo')


class StubNotConfigured(BaseException):
    pass


class EnvState:
    """Per-path behaviour of the environment, set by the harness."""

    def __init__(self):
        self.calls = []            # (name, args-summary) in call order
        self.filter_length = None  # callable(fs, pass_type, f_lo, f_hi, n_cycles, n_seconds) -> int
        self.filter_signal = None  # callable(sig, fs, pass_type, f_range, remove_edges, kwargs) -> array
        self.amp_by_time = None    # callable(sig, fs, f_range, remove_edges, kwargs) -> array
        self.dual_threshold = None  # callable(sig, fs, dual_thresh, f_range, min_n_cycles, min_burst_duration, kwargs)
        self.zscore = None         # callable(sig) -> array
        self.pool_order = None     # callable(n_tasks) -> completion permutation (list)
        self.cpu_count = 4
        self.plots = []            # recorded plotting calls
        self.compute_features = None   # optional cut


CUR = EnvState()


def reset():
    global CUR
    CUR = EnvState()
    return CUR


# --------------------------------------------------------------------------- neurodsp.utils.checks (real semantics)

def check_param_range(param, label, bounds):
    if (param < bounds[0]) or (param > bounds[1]):
        msg = "The provided value for the {} parameter is out of bounds. ".format(label)
        for b in bounds[:2]:
            if b is None:     # the real library formats the bounds with {:1.1f}: None -> TypeError
                raise TypeError("unsupported format string passed to NoneType.__format__")
        raise ValueError(msg)


def check_param_options(param, label, options):
    if param not in options:
        msg = "The provided value for the {} parameter is invalid. ".format(label) + \
            "It should be chosen from {{{}}}.".format(str(options)[1:-1])
        raise ValueError(msg)


# --------------------------------------------------------------------------- neurodsp numerical functions

def compute_filter_length(fs, pass_type, f_lo, f_hi, n_cycles=None, n_seconds=None):
    CUR.calls.append(('compute_filter_length', dict(fs=fs, pass_type=pass_type, f_lo=f_lo, f_hi=f_hi,
                                                    n_cycles=n_cycles, n_seconds=n_seconds)))
    # real library behaviour (neurodsp 2.3 filt/fir.py): exactly one of the two must be given
    if n_cycles is not None and n_seconds is not None or n_cycles is None and n_seconds is None:
        raise ValueError('Either `n_cycles` or `n_seconds` parameter must be defined, but not both.')
    if CUR.filter_length is None:
        raise StubNotConfigured('compute_filter_length')
    return CUR.filter_length(fs, pass_type, f_lo, f_hi, n_cycles, n_seconds)


def filter_signal(sig, fs, pass_type, f_range, filter_type=None, n_cycles=None, n_seconds=None,
                  remove_edges=True, **kwargs):
    kw = dict(kwargs)
    kw.update(filter_type=filter_type, n_cycles=n_cycles, n_seconds=n_seconds)
    CUR.calls.append(('filter_signal', dict(n=len(sig), fs=fs, pass_type=pass_type, f_range=f_range,
                                            remove_edges=remove_edges, kwargs=kw)))
    # real library: fs < 0 fails the range check, fs == 0 fails the filter design (ValueError both)
    if fs <= 0:
        raise ValueError("Invalid cutoff frequency: frequencies must be greater than 0 and less than fs/2.")
    if CUR.filter_signal is None:
        raise StubNotConfigured('filter_signal')
    return CUR.filter_signal(sig, fs, pass_type, f_range, remove_edges, kw)


def amp_by_time(sig, fs, f_range=None, remove_edges=True, **filter_kwargs):
    CUR.calls.append(('amp_by_time', dict(n=len(sig), fs=fs, f_range=f_range, remove_edges=remove_edges,
                                          kwargs=dict(filter_kwargs))))
    if fs <= 0:
        raise ValueError("Invalid cutoff frequency: frequencies must be greater than 0 and less than fs/2.")
    if CUR.amp_by_time is None:
        raise StubNotConfigured('amp_by_time')
    return CUR.amp_by_time(sig, fs, f_range, remove_edges, dict(filter_kwargs))


def detect_bursts_dual_threshold(sig, fs, dual_thresh, f_range=None, min_n_cycles=3,
                                 min_burst_duration=None, avg_type='median', magnitude_type='amplitude',
                                 **filter_kwargs):
    CUR.calls.append(('detect_bursts_dual_threshold',
                      dict(n=len(sig), fs=fs, dual_thresh=dual_thresh, f_range=f_range,
                           min_n_cycles=min_n_cycles, min_burst_duration=min_burst_duration,
                           kwargs=dict(filter_kwargs))))
    if fs <= 0:
        raise ValueError("Invalid cutoff frequency: frequencies must be greater than 0 and less than fs/2.")
    if CUR.dual_threshold is None:
        raise StubNotConfigured('detect_bursts_dual_threshold')
    kw = dict(filter_kwargs)
    if avg_type != 'median':              # non-default detector options are part of what the caller asked for
        kw['avg_type'] = avg_type
    if magnitude_type != 'amplitude':
        kw['magnitude_type'] = magnitude_type
    return CUR.dual_threshold(sig, fs, dual_thresh, f_range, min_n_cycles, min_burst_duration, kw)


def next_fast_len(target, real=False):
    """scipy.fft.next_fast_len for complex transforms: the smallest 11-smooth integer >= target (pure integer
    function; compared with scipy's on every run by the conformance step)."""
    n = int(target)
    if n < 0:
        raise ValueError("Target cannot be negative")
    if real:
        raise NotImplementedError("next_fast_len(real=True)")
    m = max(n, 1) if n else 0
    while True:
        k = m
        for p in (2, 3, 5, 7, 11):
            while k > 1 and k % p == 0:
                k //= p
        if k <= 1:
            return m
        m += 1


def zscore(a, *args, **kwargs):
    CUR.calls.append(('zscore', dict(n=len(a))))
    if CUR.zscore is None:
        raise StubNotConfigured('zscore')
    return CUR.zscore(a)


# --------------------------------------------------------------------------- plotting (recording stubs)

def savefig(func):
    def wrapper(*args, **kwargs):
        kwargs.pop('save_fig', None)
        kwargs.pop('file_name', None)
        kwargs.pop('file_path', None)
        kwargs.pop('close', None)
        kwargs.pop('save_kwargs', None)
        return func(*args, **kwargs)
    wrapper.__wrapped__ = func
    wrapper.__name__ = getattr(func, '__name__', 'wrapped')
    return wrapper


class RecAxes:
    _count = 0

    def __init__(self):
        RecAxes._count += 1
        self.id = RecAxes._count
        self.spans = []

    def axvspan(self, xmin, xmax, **kw):
        CUR.plots.append(('axvspan', self.id, xmin, xmax, kw))

    def __getattr__(self, name):
        if name.startswith('__'):
            raise AttributeError(name)

        def method(*a, **k):
            CUR.plots.append(('ax.' + name, self.id, a, k))
        return method


class _AxesList(list):
    pass


class _Plt:
    @staticmethod
    def subplots(nrows=1, ncols=1, figsize=None, sharex=False, **kw):
        CUR.plots.append(('subplots', nrows, ncols, figsize))
        if nrows == 1 and ncols == 1:
            return object(), RecAxes()
        if ncols == 1:
            return object(), _AxesList([RecAxes() for _ in range(int(nrows))])
        raise NotImplementedError("subplots grid")

    @staticmethod
    def figure(*a, **k):
        return object()

    @staticmethod
    def gca():
        return RecAxes()

    def __getattr__(self, name):
        def fn(*a, **k):
            CUR.plots.append(('plt.' + name, a, k))
        return fn


plt = _Plt()


def plot_time_series(times, sigs, labels=None, colors=None, ax=None, **kwargs):
    CUR.plots.append(('plot_time_series', getattr(ax, 'id', None), times, sigs, colors, kwargs))


def plot_bursts(times, sig, bursting, ax=None, **kwargs):
    CUR.plots.append(('plot_bursts', getattr(ax, 'id', None), times, sig, bursting, kwargs))


# --------------------------------------------------------------------------- multiprocessing model

class PoolModel:
    """Pool whose tasks complete in an adversarial order (``CUR.pool_order``); ``imap``/``map`` yield
    in submission order, ``imap_unordered`` in completion order (stdlib contract)."""

    def __init__(self, processes=None, *a, **k):
        CUR.calls.append(('Pool', dict(processes=processes)))
        if processes is not None and processes < 1:
            raise ValueError("Number of processes must be at least 1")
        self.processes = processes

    def __enter__(self):
        return self

    def __exit__(self, *a):
        return False

    def _run(self, func, iterable):
        tasks = list(iterable)
        n = len(tasks)
        order = list(CUR.pool_order(n)) if CUR.pool_order is not None else list(range(n))
        assert sorted(order) == list(range(n)), "pool_order must be a permutation"
        results = [None] * n
        for i in order:                      # execution/completion order
            results[i] = func(tasks[i])
        return results, order

    def imap(self, func, iterable, chunksize=1):
        results, _ = self._run(func, iterable)
        return iter(results)

    def map(self, func, iterable, chunksize=None):
        results, _ = self._run(func, iterable)
        return results

    def imap_unordered(self, func, iterable, chunksize=1):
        results, order = self._run(func, iterable)
        return iter([results[i] for i in order])

    def starmap(self, func, iterable, chunksize=None):
        results, _ = self._run(lambda a: func(*a), iterable)
        return results

    def apply(self, func, args=(), kwds=None):
        return func(*args, **(kwds or {}))

    def close(self):
        pass

    def join(self):
        pass

    def terminate(self):
        pass


def cpu_count():
    return CUR.cpu_count


class _Tqdm:
    @staticmethod
    def tqdm(iterable, **kw):
        CUR.calls.append(('tqdm', dict(total=kw.get('total'))))
        return iterable


# --------------------------------------------------------------------------- installation

def _mod(name, **attrs):
    m = types.ModuleType(name)
    m.__dict__.update(attrs)
    m.__path__ = []
    sys.modules[name] = m
    return m


def source_hashes():
    out = {}
    root = os.path.join(REPO, 'bycycle')
    for d, _, files in os.walk(root):
        if os.sep + 'tests' in d:
            continue
        for f in sorted(files):
            if f.endswith('.py'):
                p = os.path.join(d, f)
                out[os.path.relpath(p, REPO)] = hashlib.sha256(open(p, 'rb').read()).hexdigest()[:16]
    return out


def install_symbolic():
    """Bind the models and stubs, then import /repo's bycycle source unchanged."""
    sys.dont_write_bytecode = True
    from models import np_model, pd_model
    sys.modules['numpy'] = np_model
    sys.modules['pandas'] = pd_model
    _mod('neurodsp')
    _mod('neurodsp.filt', filter_signal=filter_signal)
    _mod('neurodsp.filt.fir', compute_filter_length=compute_filter_length)
    _mod('neurodsp.filt.filter', filter_signal=filter_signal)
    _mod('neurodsp.timefrequency', amp_by_time=amp_by_time)
    _mod('neurodsp.burst', detect_bursts_dual_threshold=detect_bursts_dual_threshold)
    _mod('neurodsp.utils')
    _mod('neurodsp.utils.checks', check_param_range=check_param_range,
         check_param_options=check_param_options)
    _mod('neurodsp.plts', plot_time_series=plot_time_series, plot_bursts=plot_bursts)
    _mod('neurodsp.plts.utils', savefig=savefig)
    _mod('scipy')
    _mod('scipy.stats', zscore=zscore)
    _mod('scipy.fft', next_fast_len=next_fast_len)
    _mod('matplotlib')
    _mod('matplotlib.pyplot', subplots=plt.subplots, figure=plt.figure, gca=plt.gca)
    _mod('tqdm', tqdm=_Tqdm.tqdm)
    if REPO not in sys.path:
        sys.path.insert(0, REPO)
    import importlib
    bc = importlib.import_module('bycycle')
    assert os.path.realpath(bc.__file__).startswith(os.path.realpath(REPO)), bc.__file__
    _bind_pool()
    return bc


def _bind_pool():
    import importlib
    gf = importlib.import_module('bycycle.group.features')
    gf.Pool = PoolModel
    gf.cpu_count = cpu_count


def install_real():
    """Real numpy / pandas / bycycle; stubs only at the neurodsp / scipy / plotting / Pool boundary."""
    sys.dont_write_bytecode = True
    if REPO not in sys.path:
        sys.path.insert(0, REPO)
    import importlib
    import matplotlib
    matplotlib.use('Agg')
    bc = importlib.import_module('bycycle')
    assert os.path.realpath(bc.__file__).startswith(os.path.realpath(REPO)), bc.__file__
    try:
        importlib.import_module('tqdm')
    except ImportError:
        _mod('tqdm', tqdm=_Tqdm.tqdm)      # same pass-through stand-in as on the symbolic side
    m = importlib.import_module('bycycle.cyclepoints.extrema')
    m.filter_signal = filter_signal
    m.compute_filter_length = compute_filter_length
    m = importlib.import_module('bycycle.features.shape')
    m.amp_by_time = amp_by_time
    m = importlib.import_module('bycycle.features.burst')
    m.detect_bursts_dual_threshold = detect_bursts_dual_threshold
    m = importlib.import_module('bycycle.plts.burst')
    m.zscore = zscore
    m.plot_time_series = plot_time_series
    m.plot_bursts = plot_bursts
    m.plt = plt
    m = importlib.import_module('bycycle.plts.cyclepoints')
    m.plot_time_series = plot_time_series
    m.plt = plt
    _bind_pool()
    return bc
