"""Executable semantic model of the pandas subset bycycle uses (DESIGN.md 2.2),
with pandas-3 semantics: copy-on-write (``df[col]`` is a new object, chained
assignment is lost), ``.values`` / ``.to_numpy()`` are read-only.

A frame is an ordered dict ``column -> list of cells`` plus a list of index
labels.  Operations that would need alignment of non-identical indexes raise
``ModelGap`` instead of guessing.
"""
import warnings as _warnings
import builtins

from engine import symx
from engine.symx import ModelGap, SymBool, SymInt, SymFloat, f64, i64
from models import np_model as np


class ChainedAssignmentError(Warning):
    pass


class _Mode:
    chained_assignment = 'warn'
    copy_on_write = True


class _Options:
    mode = _Mode()


options = _Options()

_WRITE_LOG = None   # optional list of (id(frame), what) for C15


def _log_write(obj, what):
    if _WRITE_LOG is not None:
        _WRITE_LOG.append((id(obj), what))


def _col_kind(vals):
    if not vals:
        return 'O'
    return np._kmax(*[np._kind_of(v) for v in vals])


def _narrow_cells(vals):
    return builtins.any(getattr(v, 'bits', None) is not None for v in vals)


def _norm_cell(v):
    if type(v) is float:
        return f64(v)
    if type(v) is int:
        return i64(v)
    return v


class Index:
    def __init__(self, labels):
        self._labels = list(labels)

    @property
    def values(self):
        return np.array(self._labels, dtype=object if builtins.any(isinstance(x, str) for x in self._labels) else None) \
            if self._labels else np.ndarray([], [], (0,), 'O')

    def __iter__(self):
        return iter(self._labels)

    def __len__(self):
        return len(self._labels)

    def __contains__(self, k):
        return k in self._labels

    def __getitem__(self, i):
        if isinstance(i, Series):
            i = i._to_array()
        if isinstance(i, np.ndarray):
            if i.kind == 'b':
                if len(i) != len(self._labels):
                    raise IndexError("boolean index did not match indexed array along axis 0")
                return Index([lab for lab, m in zip(self._labels, i._flat_values()) if symx.truth(m)])
            return Index([self._labels[int(k)] for k in i._flat_values()])
        if isinstance(i, list):
            return Index([self._labels[int(k)] for k in i])
        r = self._labels[i]
        return Index(r) if isinstance(i, slice) else r

    def tolist(self):
        return list(self._labels)

    to_list = tolist

    def __eq__(self, o):
        if isinstance(o, Index):
            o = o._labels
        return np.array([a == b for a, b in zip(self._labels, list(o))], dtype=bool)

    __hash__ = None

    def __getattr__(self, name):
        if name.startswith('_'):
            raise AttributeError(name)
        raise ModelGap("Index.%s is not modelled" % name)

    def __repr__(self):
        return "Index(%r)" % (self._labels,)


class Series:
    def __init__(self, data=None, index=None, name=None, dtype=None):
        if isinstance(data, Series):
            vals = list(data._vals)
            if index is None:
                index = list(data._index)
        elif isinstance(data, np.ndarray):
            if data.ndim != 1:
                raise ValueError("Data must be 1-dimensional, got ndarray of shape %s instead" % (data.shape,))
            vals = data._cells()       # narrow integer cells keep their machine type (they wrap)
        elif isinstance(data, (list, tuple, range)):
            vals = list(data)
        elif data is None:
            vals = []
        elif isinstance(data, (bool, int, float, SymBool, SymInt, SymFloat)) and index is not None:
            index = list(index)
            vals = [data] * len(index)          # a scalar is broadcast over the given index
        else:
            raise ModelGap("Series from %r" % (type(data),))
        self._vals = [_norm_cell(v) for v in vals]
        self._index = list(range(len(self._vals))) if index is None else list(index)
        if len(self._index) != len(self._vals):
            raise ValueError("Length of values (%d) does not match length of index (%d)"
                             % (len(self._vals), len(self._index)))
        self.name = name
        self._parent_col = None   # set when produced by df[col]: chained assignment detection
        self._kind_hint = None    # dtype kind of an EMPTY series (comparisons stay boolean)
        if isinstance(data, np.ndarray):
            self._kind_hint = data.kind
        elif isinstance(data, Series):
            self._kind_hint = data._kind_hint

    def __getattr__(self, name):
        if name.startswith('_'):
            raise AttributeError(name)
        if name in ('ix', 'as_matrix', 'append', 'iteritems', 'real_if_close'):
            raise AttributeError("'Series' object has no attribute %r" % name)
        raise ModelGap("Series.%s is not modelled" % name)

    # --- basics
    def __len__(self):
        return len(self._vals)

    def __iter__(self):
        return iter(list(self._vals))

    @property
    def index(self):
        return Index(self._index)

    @property
    def shape(self):
        return (len(self._vals),)

    @property
    def ndim(self):
        return 1

    @property
    def size(self):
        return len(self._vals)

    @property
    def dtype(self):
        return self._to_array().dtype

    def _to_array(self):
        k = _col_kind(self._vals)
        if k == 'O' and not self._vals:
            k = self._kind_hint or 'f'
        a = np.ndarray._from_flat(list(self._vals), (len(self._vals),), k)
        return a

    @property
    def values(self):
        a = self._to_array()
        a._writeable = False
        return a

    def to_numpy(self, dtype=None, copy=False):
        a = self._to_array()
        if dtype is not None:
            a = a.astype(dtype)
        if not copy:
            a._writeable = False
        return a

    def __array__(self):
        return self.values

    def tolist(self):
        return list(self._vals)

    to_list = tolist

    def copy(self, deep=True):
        return Series(list(self._vals), list(self._index), self.name)

    def __copy__(self):
        return self.copy()

    def __deepcopy__(self, memo):
        return self.copy()

    def astype(self, t):
        return Series(self._to_array().astype(t), list(self._index), self.name)

    def reset_index(self, drop=False, inplace=False):
        if not drop:
            raise ModelGap("Series.reset_index(drop=False)")
        if inplace:
            self._index = list(range(len(self._vals)))
            return None
        return Series(list(self._vals), None, self.name)

    # --- element access (label based for an integer index)
    def _pos(self, key):
        key = int(key) if isinstance(key, (int, SymInt)) and not isinstance(key, bool) else key
        try:
            return self._index.index(key)
        except ValueError:
            raise KeyError(key)

    def __getitem__(self, key):
        if isinstance(key, slice):
            return Series(self._vals[key], self._index[key], self.name)
        if isinstance(key, Series):
            key = key._to_array()
        if isinstance(key, np.ndarray):
            if key.kind == 'b':
                if len(key) != len(self._vals):
                    raise IndexError("Boolean index has wrong length")
                sel = [i for i, m in enumerate(key._flat_values()) if symx.truth(m)]
                return Series([self._vals[i] for i in sel], [self._index[i] for i in sel], self.name)
            raise ModelGap("Series[int array]")
        if isinstance(key, (list, tuple)):
            raise ModelGap("Series[list]")
        return self._vals[self._pos(key)]

    def __setitem__(self, key, value):
        # pandas 3 copy-on-write: a Series obtained from ``df[col]`` is a temporary; writing into
        # it never reaches the frame.
        if self._parent_col is not None:
            _warnings.warn("A value is being set on a copy of a DataFrame or Series through chained "
                           "assignment.", ChainedAssignmentError, stacklevel=2)
        if isinstance(key, slice):
            n = len(self._vals[key])
            vals = list(value) if isinstance(value, (list, tuple, np.ndarray, Series)) else [value] * n
            self._vals[key] = [_norm_cell(v) for v in vals]
            return
        if isinstance(key, (Series, np.ndarray, list)):
            raise ModelGap("Series[array] = value")
        key = int(key) if isinstance(key, (int, SymInt)) and not isinstance(key, bool) else key
        if key in self._index:
            self._vals[self._index.index(key)] = _norm_cell(value)
        else:
            # setting with enlargement
            self._index.append(key)
            self._vals.append(_norm_cell(value))

    @property
    def iloc(self):
        return _SeriesILoc(self)

    @property
    def loc(self):
        return _SeriesLoc(self)

    # --- arithmetic
    def _align(self, o):
        if isinstance(o, Series):
            if o._index != self._index:
                raise ModelGap("Series alignment of different indexes")
            return list(o._vals)
        if isinstance(o, np.ndarray):
            if o.ndim == 0:
                return [o._get_flat(0)] * len(self._vals)
            if o.ndim != 1 or len(o) != len(self._vals):
                raise ValueError("Lengths must match to compare" if True else "")
            return o._cells()
        if isinstance(o, (list, tuple)):
            if len(o) != len(self._vals):
                raise ValueError("Lengths must match")
            return list(o)
        if isinstance(o, DataFrame):
            raise ModelGap("Series op DataFrame")
        return [o] * len(self._vals)

    def _binop(self, o, f, rev=False, name=None, kind=None):
        if isinstance(o, DataFrame):
            return NotImplemented
        ov = self._align(o)
        nm = self.name if not isinstance(o, Series) or o.name == self.name else None
        if _narrow_cells(self._vals) or _narrow_cells(ov):
            # machine-integer columns: numpy's array arithmetic decides promotion and wrap-around
            a = self._to_array()
            b = o if (not isinstance(o, (Series, list, tuple, np.ndarray)) and o is not None) else np.ndarray._from_flat(list(ov), (len(ov),), _col_kind(ov))
            g = {np._div: lambda x, y: x / y, np._add: lambda x, y: x + y, np._mul: lambda x, y: x * y,
                 np._bitand: lambda x, y: x & y, np._bitor: lambda x, y: x | y}.get(f, f)
            res = g(b, a) if rev else g(a, b)
            if not isinstance(res, np.ndarray):
                raise ModelGap("Series operation on machine-integer cells")
            vals = res._cells()
        elif rev:
            vals = [f(b, a) for a, b in zip(self._vals, ov)]
        else:
            vals = [f(a, b) for a, b in zip(self._vals, ov)]
        r = Series(vals, list(self._index), nm)
        r._kind_hint = kind or self._kind_hint
        return r

    def __add__(self, o):
        return self._binop(o, np._add)

    def __radd__(self, o):
        return self._binop(o, np._add, True)

    def __sub__(self, o):
        return self._binop(o, _sub_checked)

    def __rsub__(self, o):
        return self._binop(o, _sub_checked, True)

    def __mul__(self, o):
        return self._binop(o, np._mul)

    def __rmul__(self, o):
        return self._binop(o, np._mul, True)

    def __truediv__(self, o):
        return self._binop(o, np._div)

    def __rtruediv__(self, o):
        return self._binop(o, np._div, True)

    def __neg__(self):
        return Series([-v for v in self._vals], list(self._index), self.name)

    def __abs__(self):
        return Series([abs(v) for v in self._vals], list(self._index), self.name)

    abs = __abs__

    def __invert__(self):
        return Series([np._not(v) for v in self._vals], list(self._index), self.name)

    def __and__(self, o):
        return self._binop(o, np._bitand)

    __rand__ = __and__

    def __or__(self, o):
        return self._binop(o, np._bitor)

    __ror__ = __or__

    def __lt__(self, o):
        return self._binop(o, lambda a, b: a < b, kind='b')

    def __le__(self, o):
        return self._binop(o, lambda a, b: a <= b, kind='b')

    def __gt__(self, o):
        return self._binop(o, lambda a, b: a > b, kind='b')

    def __ge__(self, o):
        return self._binop(o, lambda a, b: a >= b, kind='b')

    def __eq__(self, o):
        return self._binop(o, np._eq, kind='b')

    def __ne__(self, o):
        return self._binop(o, np._ne, kind='b')

    __hash__ = None

    def __bool__(self):
        raise ValueError("The truth value of a Series is ambiguous. Use a.empty, a.bool(), a.item(), "
                         "a.any() or a.all().")

    # --- reductions
    def sum(self):
        return np.sum(self._to_array())

    def mean(self):
        return np.mean(self._to_array())

    def min(self):
        return np.nanmin(self._to_array())

    def max(self):
        return np.nanmax(self._to_array())

    def any(self):
        return self._to_array().any()

    def all(self):
        return self._to_array().all()

    def round(self, decimals=0):
        return Series([np.round(v, decimals) for v in self._vals], list(self._index), self.name)

    def isna(self):
        return Series([symx.is_nan(v) for v in self._vals], list(self._index), self.name)

    isnull = isna

    def rank(self, method='average', ascending=True, pct=False, na_option='keep'):
        """Rank of each value (1-based); NaN keeps NaN.  Built from pairwise comparisons."""
        if na_option != 'keep':
            raise ModelGap("rank(na_option)")
        vals = self._vals
        n = len(vals)
        out = []
        for i in range(n):
            vi = vals[i]
            if symx.truth(symx.is_nan(vi)):
                out.append(f64('nan'))
                continue
            less = i64(0)
            equal = i64(0)
            first_pos = i64(0)
            for j in range(n):
                vj = vals[j]
                if symx.truth(symx.is_nan(vj)):
                    continue
                lt = (vj < vi) if ascending else (vj > vi)
                eq = (vj == vi)
                less = less + symx.ite(lt, 1, 0)
                equal = equal + symx.ite(eq, 1, 0)
                if j <= i:
                    first_pos = first_pos + symx.ite(eq, 1, 0)
            if method == 'average':
                r = less + (equal + 1) / 2
            elif method == 'min':
                r = less + 1
            elif method == 'max':
                r = less + equal
            elif method == 'first':
                r = less + first_pos
            elif method == 'dense':
                raise ModelGap("rank(method='dense')")
            else:
                raise ValueError("method must be one of average, min, max, first, dense")
            r = np._coerce(r, 'f')
            out.append(r)
        if pct:
            cnt = builtins.sum(1 for v in vals if not symx.truth(symx.is_nan(v)))
            out = [np._div(v, cnt) for v in out]
        return Series(out, list(self._index), self.name)

    # ---- vectorised helpers a refactoring is likely to reach for
    def _like(self, vals):
        return Series(list(vals), list(self._index), self.name)

    def shift(self, periods=1, fill_value=None):
        n = len(self._vals)
        k = int(periods)
        fill = f64('nan') if fill_value is None else fill_value
        if k >= 0:
            vals = [fill] * builtins.min(k, n) + list(self._vals[:builtins.max(n - k, 0)])
        else:
            vals = list(self._vals[-k:]) + [fill] * builtins.min(-k, n)
        if fill_value is None and _col_kind(self._vals) in ('i', 'b') and k != 0 and n:
            if _col_kind(self._vals) == 'b':
                raise ModelGap("shift of a boolean Series (object dtype)")
            vals = [np._coerce(v, 'f') if i_ok else v for v, i_ok in zip(vals, [True] * len(vals))]
        return self._like(vals)

    def diff(self, periods=1):
        if int(periods) != 1:
            raise ModelGap("Series.diff(periods != 1)")
        if _col_kind(self._vals) == 'b':
            raise ModelGap("Series.diff of booleans")
        vals = [f64('nan')] + [np._coerce(self._vals[i] - self._vals[i - 1], 'f') for i in range(1, len(self._vals))]
        return self._like(vals[:len(self._vals)])

    def cumsum(self):
        if _narrow_cells(self._vals):
            raise ModelGap("cumsum of machine-integer cells")
        out, tot = [], 0
        for v in self._vals:
            if isinstance(v, (bool, SymBool)):
                v = int(v) if isinstance(v, bool) else v._int()
            tot = tot + v
            out.append(tot)
        return self._like(out)

    def clip(self, lower=None, upper=None):
        vals = list(self._vals)
        if lower is not None:
            vals = [symx.ite(v < lower, lower, v) if not symx.truth(np.isnan(v) if isinstance(v, (float, SymFloat)) else False) else v for v in vals]
        if upper is not None:
            vals = [symx.ite(v > upper, upper, v) if not symx.truth(np.isnan(v) if isinstance(v, (float, SymFloat)) else False) else v for v in vals]
        return self._like(vals)

    def isin(self, values):
        values = list(values._vals) if isinstance(values, Series) else (values._flat_values() if isinstance(values, np.ndarray) else list(values))
        out = []
        for v in self._vals:
            r = False
            for w in values:
                r = np._or(r, np._as_boolval(v == w))
            out.append(r)
        res = self._like(out)
        res._kind_hint = 'b'
        return res

    def between(self, left, right, inclusive='both'):
        lo = (self >= left) if inclusive in ('both', 'left') else (self > left)
        hi = (self <= right) if inclusive in ('both', 'right') else (self < right)
        return lo & hi

    def where(self, cond, other=None):
        cv = self._align(cond)
        ov = [f64('nan')] * len(self._vals) if other is None else self._align(other)
        if other is None and _col_kind(self._vals) in ('i', 'b'):
            raise ModelGap("Series.where introducing NaN into an integer / boolean Series")
        return self._like([symx.ite(np._as_boolval(c), v, o) for c, v, o in zip(cv, self._vals, ov)])

    def mask(self, cond, other=None):
        return self.where(~cond if isinstance(cond, (Series, np.ndarray)) else [np._not(c) for c in cond], other)

    def fillna(self, value):
        return self._like([symx.ite(np._as_boolval(np.isnan(v)), value, v) if isinstance(v, (float, SymFloat)) else v for v in self._vals])

    def to_frame(self):
        return DataFrame({self.name: self})

    def __repr__(self):
        return "Series(%r, index=%r, name=%r)" % (self._vals, self._index, self.name)


def _sub_checked(a, b):
    if isinstance(a, (bool, SymBool)) and isinstance(b, (bool, SymBool)):
        raise TypeError("numpy boolean subtract, the `-` operator, is not supported")
    return a - b


class _SeriesILoc:
    def __init__(self, s):
        self._s = s

    def __getitem__(self, k):
        if isinstance(k, slice):
            return Series(self._s._vals[k], self._s._index[k], self._s.name)
        return self._s._vals[int(k)]

    def __setitem__(self, k, v):
        if self._s._parent_col is not None:
            _warnings.warn("chained assignment", ChainedAssignmentError, stacklevel=2)
        self._s._vals[int(k)] = _norm_cell(v)


class _SeriesLoc:
    def __init__(self, s):
        self._s = s

    def __getitem__(self, k):
        return self._s[k]

    def __setitem__(self, k, v):
        self._s[k] = v


class _Columns:
    def __init__(self, names):
        self._names = list(names)

    def __iter__(self):
        return iter(self._names)

    def __len__(self):
        return len(self._names)

    def __contains__(self, k):
        return k in self._names

    def __getitem__(self, i):
        return self._names[i]

    @property
    def values(self):
        return np.ndarray(list(self._names), list(range(len(self._names))), (len(self._names),), 'O')

    def tolist(self):
        return list(self._names)

    to_list = tolist

    def intersection(self, other, sort=False):
        other = list(other)
        out = []
        for n in self._names:
            if n in other and n not in out:
                out.append(n)
        return _Columns(sorted(out) if sort else out)

    def difference(self, other, sort=None):
        other = list(other)
        out = []
        for n in self._names:
            if n not in other and n not in out:
                out.append(n)
        return _Columns(out if sort is False else sorted(out))

    def isin(self, other):
        other = list(other)
        return np.ndarray._from_flat([n in other for n in self._names], (len(self._names),), 'b')

    def __getattr__(self, name):
        if name.startswith('__'):
            raise AttributeError(name)
        raise ModelGap("columns.%s is not modelled" % name)

    def __eq__(self, o):
        return list(self._names) == list(o)

    __hash__ = None

    def __repr__(self):
        return "Index(%r)" % (self._names,)


class DataFrame:
    def __init__(self, data=None, index=None, columns=None):
        self._cols = {}
        self._index = []
        if data is None:
            if columns is not None:
                for c in columns:
                    self._cols[c] = []
            if index is not None:
                self._index = list(index)
            return
        if isinstance(data, DataFrame):
            self._cols = {c: list(v) for c, v in data._cols.items()}
            self._index = list(data._index)
            return
        if isinstance(data, dict):
            n = None
            idx = None
            for c, v in data.items():
                if isinstance(v, Series):
                    vals = list(v._vals)
                    if idx is None:
                        idx = list(v._index)
                    elif idx != list(v._index):
                        raise ModelGap("DataFrame from Series with different indexes")
                elif isinstance(v, np.ndarray):
                    if v.ndim != 1:
                        raise ValueError("Per-column arrays must each be 1-dimensional")
                    vals = v._cells()
                elif isinstance(v, (list, tuple, range)):
                    vals = list(v)
                else:
                    raise ValueError("If using all scalar values, you must pass an index")
                if n is None:
                    n = len(vals)
                elif n != len(vals):
                    raise ValueError("All arrays must be of the same length")
                self._cols[c] = [_norm_cell(x) for x in vals]
            n = 0 if n is None else n
            self._index = idx if idx is not None else list(range(n))
            if index is not None:
                self._index = list(index)
            return
        if isinstance(data, list) and builtins.all(isinstance(r, dict) for r in data):
            cols = []
            for r in data:
                for c in r:
                    if c not in cols:
                        cols.append(c)
            for c in cols:
                self._cols[c] = [_norm_cell(r.get(c, f64('nan'))) for r in data]
            self._index = list(range(len(data))) if index is None else list(index)
            return
        raise ModelGap("DataFrame constructor from %r" % (type(data),))

    @classmethod
    def from_dict(cls, data, orient='columns'):
        if orient != 'columns':
            raise ModelGap("from_dict orient")
        return cls(data)

    @classmethod
    def _make(cls, cols, index):
        df = cls()
        df._cols = cols
        df._index = index
        return df

    # --- basics
    def __len__(self):
        return len(self._index)

    @property
    def columns(self):
        return _Columns(self._cols.keys())

    @columns.setter
    def columns(self, names):
        names = list(names)
        if len(names) != len(self._cols):
            raise ValueError("Length mismatch")
        _log_write(self, 'columns')
        self._cols = {n: v for n, v in zip(names, self._cols.values())}

    def keys(self):
        return self.columns

    def __iter__(self):
        return iter(list(self._cols.keys()))

    def __contains__(self, k):
        return k in self._cols

    @property
    def index(self):
        return Index(self._index)

    @property
    def shape(self):
        return (len(self._index), len(self._cols))

    @property
    def empty(self):
        return len(self._index) == 0 or len(self._cols) == 0

    @property
    def values(self):
        rows = [[self._cols[c][i] for c in self._cols] for i in range(len(self._index))]
        a = np.array(rows) if rows else np.zeros((0, len(self._cols)))
        a._writeable = False
        return a

    def to_numpy(self):
        return self.values

    def copy(self, deep=True):
        return DataFrame._make({c: list(v) for c, v in self._cols.items()}, list(self._index))

    def __copy__(self):
        return self.copy()

    def __deepcopy__(self, memo):
        return self.copy()

    def _series(self, c):
        s = Series(list(self._cols[c]), list(self._index), c)
        s._parent_col = (self, c)
        s._kind_hint = self.__dict__.get('_kinds', {}).get(c)
        return s

    def __getattr__(self, name):
        if name.startswith('_'):
            raise AttributeError(name)
        cols = self.__dict__.get('_cols', {})
        if name in cols:
            return self._series(name)
        if name in ('ix', 'as_matrix', 'append', 'iteritems'):
            raise AttributeError("'DataFrame' object has no attribute %r" % name)
        raise ModelGap("DataFrame.%s is not modelled" % name)

    def __getitem__(self, key):
        if isinstance(key, str):
            if key not in self._cols:
                raise KeyError(key)
            return self._series(key)
        if isinstance(key, Series):
            if key._index != self._index:
                raise ModelGap("boolean Series key with a different index")
            key = key._to_array()
        if isinstance(key, np.ndarray) and key.kind == 'b':
            if key.ndim != 1 or len(key) != len(self._index):
                raise ValueError("Item wrong length %d instead of %d." % (len(key), len(self._index)))
            sel = [i for i, m in enumerate(key._flat_values()) if symx.truth(m)]
            return self._take(sel)
        if isinstance(key, (list, np.ndarray, _Columns)):
            names = list(key) if not isinstance(key, np.ndarray) else key._flat_values()
            if builtins.all(isinstance(k, bool) for k in names) and len(names) == len(self._index) and names:
                return self._take([i for i, m in enumerate(names) if m])
            for k in names:
                if k not in self._cols:
                    raise KeyError("%r not in index" % (k,))
            return DataFrame._make({k: list(self._cols[k]) for k in names}, list(self._index))
        if isinstance(key, slice):
            sel = list(range(len(self._index)))[key]
            return self._take(sel)
        raise KeyError(key)

    def _take(self, sel):
        r = DataFrame._make({c: [v[i] for i in sel] for c, v in self._cols.items()},
                            [self._index[i] for i in sel])
        # an emptied frame keeps the dtype kinds of its columns
        r._kinds = {c: (_col_kind(v) if v else self.__dict__.get('_kinds', {}).get(c)) for c, v in self._cols.items()}
        return r

    def __setitem__(self, key, value):
        if not isinstance(key, str):
            raise ModelGap("DataFrame.__setitem__ with non-string key")
        _log_write(self, 'set:' + key)
        n = len(self._index)
        if isinstance(value, Series):
            if not self._cols and not self._index:
                self._index = list(value._index)
                n = len(self._index)
            if value._index != self._index:
                if builtins.sorted(value._index) == builtins.sorted(self._index) and \
                        len(set(self._index)) == len(self._index):
                    pos = {k: i for i, k in enumerate(value._index)}
                    vals = [value._vals[pos[k]] for k in self._index]
                else:
                    raise ModelGap("assigning a Series with a different index")
            else:
                vals = list(value._vals)
        elif isinstance(value, np.ndarray):
            if value.ndim == 0:
                vals = [value._get_flat(0)] * n
            elif value.ndim != 1:
                raise ValueError("Cannot set a DataFrame with multiple columns to the single column %s" % key)
            else:
                vals = value._cells()
        elif isinstance(value, (list, tuple, range)):
            vals = list(value)
        else:
            vals = None
        if vals is None:
            vals = [value] * n
        else:
            if not self._cols and not self._index:
                self._index = list(range(len(vals)))
                n = len(vals)
            if len(vals) != n:
                raise ValueError("Length of values (%d) does not match length of index (%d)" % (len(vals), n))
        self._cols[key] = [_norm_cell(v) for v in vals]

    def __delitem__(self, key):
        if key not in self._cols:
            raise KeyError(key)
        _log_write(self, 'del:' + key)
        del self._cols[key]

    def pop(self, key):
        if key not in self._cols:
            raise KeyError(key)
        _log_write(self, 'pop:' + key)
        vals = self._cols.pop(key)
        return Series(vals, list(self._index), key)

    def get(self, key, default=None):
        return self[key] if key in self._cols else default

    def rename(self, columns=None, inplace=False, index=None, **kw):
        if columns is None or index is not None or kw:
            raise ModelGap("rename other than columns=")
        if callable(columns):
            newnames = [columns(c) for c in self._cols]
        else:
            newnames = [columns.get(c, c) for c in self._cols]
        newcols = {}
        for nn, (c, v) in zip(newnames, self._cols.items()):
            if nn in newcols:
                raise ModelGap("rename producing duplicate column names")
            newcols[nn] = v
        if inplace:
            _log_write(self, 'rename')
            self._cols = newcols
            return None
        return DataFrame._make({c: list(v) for c, v in newcols.items()}, list(self._index))

    def drop(self, labels=None, axis=0, columns=None, inplace=False, index=None, errors='raise'):
        if columns is None and axis in (1, 'columns'):
            columns = labels
        elif columns is None:
            if labels is None and index is None:
                raise ValueError("Need to specify at least one of 'labels', 'index' or 'columns'")
            rows = labels if labels is not None else index
            rows = list(rows) if isinstance(rows, (list, tuple, np.ndarray, Index)) else [rows]
            for r in rows:
                if r not in self._index:
                    raise KeyError("%r not found in axis" % (r,))
            sel = [i for i, k in enumerate(self._index) if k not in rows]
            out = self._take(sel)
            if inplace:
                _log_write(self, 'drop')
                self._cols, self._index = out._cols, out._index
                return None
            return out
        names = list(columns) if isinstance(columns, (list, tuple, _Columns, np.ndarray)) else [columns]
        for c in names:
            if c not in self._cols and errors == 'raise':
                raise KeyError("%r not found in axis" % ([c],))
        newcols = {c: list(v) for c, v in self._cols.items() if c not in names}
        if inplace:
            _log_write(self, 'drop')
            self._cols = newcols
            return None
        return DataFrame._make(newcols, list(self._index))

    def reset_index(self, drop=False, inplace=False):
        if not drop:
            raise ModelGap("reset_index(drop=False)")
        if inplace:
            _log_write(self, 'reset_index')
            self._index = list(range(len(self._index)))
            return None
        return DataFrame._make({c: list(v) for c, v in self._cols.items()}, list(range(len(self._index))))

    def to_dict(self, orient='dict'):
        if orient == 'records':
            return [{c: self._cols[c][i] for c in self._cols} for i in range(len(self._index))]
        if orient == 'list':
            return {c: list(v) for c, v in self._cols.items()}
        if orient == 'dict':
            return {c: {k: x for k, x in zip(self._index, v)} for c, v in self._cols.items()}
        raise ModelGap("to_dict(%r)" % orient)

    def iterrows(self):
        for i, k in enumerate(self._index):
            yield k, Series([self._cols[c][i] for c in self._cols], list(self._cols.keys()), k)

    def itertuples(self, index=True):
        raise ModelGap("itertuples")

    @property
    def iloc(self):
        return _ILoc(self)

    @property
    def loc(self):
        return _Loc(self)

    @property
    def at(self):
        return _At(self)

    @property
    def iat(self):
        return _IAt(self)

    # --- elementwise operators and row / column reductions (frame op scalar | same-labelled frame)
    def _map(self, f):
        return DataFrame._make({c: [f(v) for v in vals] for c, vals in self._cols.items()}, list(self._index))

    def _zip(self, o, f, rev=False):
        if isinstance(o, DataFrame):
            if list(o._cols.keys()) != list(self._cols.keys()) or o._index != self._index:
                raise ModelGap("DataFrame op DataFrame with different labels")
            return DataFrame._make({c: [(f(b, a) if rev else f(a, b)) for a, b in zip(self._cols[c], o._cols[c])]
                                    for c in self._cols}, list(self._index))
        if isinstance(o, (Series, np.ndarray, list, tuple, dict)):
            raise ModelGap("DataFrame op %s" % type(o).__name__)
        return self._map((lambda a: f(o, a)) if rev else (lambda a: f(a, o)))

    def __neg__(self):
        return self._map(lambda v: -v)

    def __abs__(self):
        return self._map(abs)

    abs = __abs__

    def __add__(self, o):
        return self._zip(o, np._add)

    def __radd__(self, o):
        return self._zip(o, np._add, True)

    def __sub__(self, o):
        return self._zip(o, _sub_checked)

    def __rsub__(self, o):
        return self._zip(o, _sub_checked, True)

    def __mul__(self, o):
        return self._zip(o, np._mul)

    def __rmul__(self, o):
        return self._zip(o, np._mul, True)

    def __truediv__(self, o):
        return self._zip(o, np._div)

    def __rtruediv__(self, o):
        return self._zip(o, np._div, True)

    def __lt__(self, o):
        return self._zip(o, lambda a, b: a < b)

    def __le__(self, o):
        return self._zip(o, lambda a, b: a <= b)

    def __gt__(self, o):
        return self._zip(o, lambda a, b: a > b)

    def __ge__(self, o):
        return self._zip(o, lambda a, b: a >= b)

    def __invert__(self):
        return self._map(np._not)

    def _reduce(self, fn, axis):
        if axis in (1, 'columns'):
            rows = [[self._cols[c][i] for c in self._cols] for i in range(len(self._index))]
            return Series([fn(np.array(r)) if r else f64('nan') for r in rows], list(self._index))
        if axis in (0, 'index', None):
            return Series([fn(np.array(v)) if v else f64('nan') for v in self._cols.values()], list(self._cols.keys()))
        raise ValueError("No axis named %r" % (axis,))

    def max(self, axis=0):
        return self._reduce(np.nanmax, axis)

    def min(self, axis=0):
        return self._reduce(np.nanmin, axis)

    def sum(self, axis=0):
        return self._reduce(np.sum, axis)

    def mean(self, axis=0):
        return self._reduce(np.mean, axis)

    def head(self, n=5):
        return self._take(list(range(len(self._index)))[:n])

    def tail(self, n=5):
        return self._take(list(range(len(self._index)))[-n:] if n else [])

    def equals(self, other):
        raise ModelGap("equals")

    def __eq__(self, o):
        raise ModelGap("DataFrame ==")

    __hash__ = None

    def __bool__(self):
        raise ValueError("The truth value of a DataFrame is ambiguous.")

    def __repr__(self):
        return "DataFrame(cols=%r, index=%r)" % (self._cols, self._index)


def _positions(df, k, n):
    """Positional row selector -> list of positions."""
    if isinstance(k, slice):
        return list(range(n))[k], True
    if isinstance(k, range):
        k = list(k)
    if isinstance(k, Series):
        k = k._to_array()
    if isinstance(k, np.ndarray):
        if k.kind == 'b':
            if len(k) != n:
                raise IndexError("Boolean index has wrong length")
            return [i for i, m in enumerate(k._flat_values()) if symx.truth(m)], True
        k = [int(v) for v in k._flat_values()]
    if isinstance(k, (list, tuple)):
        out = []
        for v in k:
            v = int(v)
            if v < -n or v >= n:
                raise IndexError("positional indexers are out-of-bounds")
            out.append(v + n if v < 0 else v)
        return out, True
    v = int(k)
    if v < -n or v >= n:
        raise IndexError("single positional indexer is out-of-bounds")
    return [v + n if v < 0 else v], False


class _ILoc:
    def __init__(self, df):
        self._df = df

    def __getitem__(self, key):
        df = self._df
        if isinstance(key, tuple):
            rows, col = key
            cname = list(df._cols.keys())[col] if isinstance(col, int) else _gap("iloc column selector")
            sel, many = _positions(df, rows, len(df._index))
            if many:
                return Series([df._cols[cname][i] for i in sel], [df._index[i] for i in sel], cname)
            return df._cols[cname][sel[0]]
        sel, many = _positions(df, key, len(df._index))
        if many:
            return df._take(sel)
        i = sel[0]
        return Series([df._cols[c][i] for c in df._cols], list(df._cols.keys()), df._index[i])

    def __setitem__(self, key, value):
        df = self._df
        if not isinstance(key, tuple):
            raise ModelGap("iloc row assignment")
        rows, col = key
        cname = list(df._cols.keys())[col] if isinstance(col, int) else _gap("iloc column selector")
        sel, many = _positions(df, rows, len(df._index))
        _log_write(df, 'iloc-set:' + cname)
        vals = list(value) if isinstance(value, (list, tuple, np.ndarray, Series)) else [value] * len(sel)
        for i, v in zip(sel, vals):
            df._cols[cname][i] = _norm_cell(v)


def _gap(msg):
    raise ModelGap(msg)


class _Loc:
    def __init__(self, df):
        self._df = df

    def _rows(self, k):
        df = self._df
        if isinstance(k, Series):
            if k._index != df._index:
                raise ModelGap(".loc with a differently indexed boolean Series")
            k = k._to_array()
        if isinstance(k, np.ndarray) and k.kind == 'b':
            if len(k) != len(df._index):
                raise IndexError("Boolean index has wrong length")
            return [i for i, m in enumerate(k._flat_values()) if symx.truth(m)], True
        if isinstance(k, slice):
            if k == slice(None):
                return list(range(len(df._index))), True
            raise ModelGap(".loc label slice")
        if isinstance(k, Index):
            k = list(k._labels)
        if isinstance(k, (list, np.ndarray)):
            labels = list(k) if isinstance(k, list) else k._flat_values()
            if labels and builtins.all(isinstance(x, bool) for x in labels):
                return [i for i, m in enumerate(labels) if m], True
            out = []
            for lab in labels:
                lab = int(lab) if isinstance(lab, (int, SymInt)) else lab
                hits = [i for i, x in enumerate(df._index) if x == lab]     # a repeated label selects every row carrying it
                if not hits:
                    raise KeyError(lab)
                out.extend(hits)
            return out, True
        lab = int(k) if isinstance(k, (int, SymInt)) and not isinstance(k, bool) else k
        if lab not in df._index:
            raise KeyError(lab)
        return [df._index.index(lab)], False

    def __getitem__(self, key):
        df = self._df
        if isinstance(key, tuple):
            rows, col = key
            sel, many = self._rows(rows)
            if isinstance(col, str):
                if col not in df._cols:
                    raise KeyError(col)
                if many:
                    return Series([df._cols[col][i] for i in sel], [df._index[i] for i in sel], col)
                return df._cols[col][sel[0]]
            raise ModelGap(".loc column selector")
        sel, many = self._rows(key)
        if many:
            return df._take(sel)
        i = sel[0]
        return Series([df._cols[c][i] for c in df._cols], list(df._cols.keys()), df._index[i])

    def __setitem__(self, key, value):
        df = self._df
        if not isinstance(key, tuple):
            raise ModelGap(".loc row assignment")
        rows, col = key
        if not isinstance(col, str):
            raise ModelGap(".loc column selector")
        sel, many = self._rows(rows)
        _log_write(df, 'loc-set:' + col)
        if col not in df._cols:
            df._cols[col] = [f64('nan')] * len(df._index)
        vals = list(value) if isinstance(value, (list, tuple, np.ndarray, Series)) else [value] * len(sel)
        for i, v in zip(sel, vals):
            df._cols[col][i] = _norm_cell(v)


class _At:
    def __init__(self, df):
        self._df = df

    def __getitem__(self, key):
        r, c = key
        return _Loc(self._df)[r, c]

    def __setitem__(self, key, v):
        r, c = key
        _Loc(self._df)[r, c] = v


class _IAt:
    def __init__(self, df):
        self._df = df

    def __getitem__(self, key):
        return _ILoc(self._df)[key]

    def __setitem__(self, key, v):
        _ILoc(self._df)[key] = v


def concat(objs, axis=0, ignore_index=False, **kw):
    objs = list(objs)
    if not objs:
        raise ValueError("No objects to concatenate")
    if axis in (1, 'columns'):
        frames = []
        for o in objs:
            if isinstance(o, Series):
                frames.append(DataFrame._make({o.name: list(o._vals)}, list(o._index)))
            elif isinstance(o, DataFrame):
                frames.append(o)
            else:
                raise TypeError("cannot concatenate object of type '%s'" % type(o))
        idx = None
        for f in frames:
            if not f._cols and not f._index:
                continue
            if idx is None:
                idx = list(f._index)
            elif idx != list(f._index):
                raise ModelGap("concat(axis=1) of differently indexed frames")
        cols = {}
        for f in frames:
            for c, v in f._cols.items():
                if c in cols:
                    raise ModelGap("concat(axis=1) with duplicate column names")
                cols[c] = list(v)
        return DataFrame._make(cols, idx or [])
    if axis not in (0, 'index'):
        raise ValueError("No axis named %r" % (axis,))
    if builtins.all(isinstance(o, Series) for o in objs):
        vals, idx = [], []
        for o in objs:
            vals.extend(o._vals)
            idx.extend(o._index)
        return Series(vals, list(range(len(vals))) if ignore_index else idx)
    names = []
    for o in objs:
        if not isinstance(o, DataFrame):
            raise ModelGap("concat(axis=0) mixing frames and series")
        for c in o._cols:
            if c not in names:
                names.append(c)
    cols = {c: [] for c in names}
    idx = []
    for o in objs:
        n = len(o._index)
        for c in names:
            cols[c].extend(o._cols[c] if c in o._cols else [f64('nan')] * n)
        idx.extend(o._index)
    if ignore_index:
        idx = list(range(len(idx)))
    return DataFrame._make(cols, idx)


def to_numeric(arg, errors='raise', downcast=None):
    """only what a numeric Series needs: downcast='unsigned' / 'integer' picks the smallest integer dtype that
    holds every value (unsigned: only if no value is negative)."""
    if not isinstance(arg, Series):
        raise ModelGap("to_numeric of %r" % (type(arg),))
    k = _col_kind(arg._vals)
    if downcast is None or not arg._vals or k not in ('i', 'b'):
        if downcast == 'float' or (downcast is not None and k == 'f'):
            raise ModelGap("to_numeric downcast of floats")
        return arg.copy()
    if k == 'b' or _narrow_cells(arg._vals):
        raise ModelGap("to_numeric downcast of bool / already narrow series")
    if downcast == 'unsigned':
        cands = [(False, 8), (False, 16), (False, 32), (False, 64)]
    elif downcast in ('integer', 'signed'):
        cands = [(True, 8), (True, 16), (True, 32)]
    else:
        raise ValueError("invalid downcasting method provided")
    for signed, w in cands:
        lo = -(1 << (w - 1)) if signed else 0
        hi = (1 << (w - 1)) - 1 if signed else (1 << w) - 1
        fits = True
        for v in arg._vals:
            fits = np._and(fits, np._and(v >= lo, v <= hi))
        if symx.truth(fits):
            return Series([np._narrow_scalar(v, (signed, w)) for v in arg._vals], list(arg._index), arg.name)
    return arg.copy()


def isna(x):
    if isinstance(x, Series):
        return x.isna()
    return symx.is_nan(x)


isnull = isna


def __getattr__(name):
    if name.startswith('__'):
        raise AttributeError(name)
    raise ModelGap("pandas.%s is not modelled" % name)
