"""Executable semantic model of the numpy subset bycycle uses (DESIGN.md 2.2).

Arrays are list-backed; elements are concrete Python scalars or symx symbolic
scalars.  Views share storage (offset lists) so that in-place writes through
slices, ``swapaxes`` and ``reshape`` views behave as in numpy.  Anything not
modelled raises ``ModelGap`` (an inconclusive run), never a guess.
"""
import math
import builtins
import itertools

from engine import symx
from engine.symx import (SymBool, SymInt, SymFloat, f64, i64, ModelGap, ite, conc_div)

nan = f64('nan')
inf = f64('inf')
PI_PROVIDER = None    # harness hook: symbolic pi (C17)
newaxis = None
bool_ = bool
float64 = float
int64 = int

_WRITE_LOG = None   # optional list collecting in-place writes (C15)


class errstate:
    def __init__(self, **kw):
        pass

    def __enter__(self):
        return self

    def __exit__(self, *a):
        return False


# --------------------------------------------------------------------------- scalar helpers

def _kind_of(x):
    if isinstance(x, (bool, SymBool)):
        return 'b'
    if isinstance(x, (int, SymInt)):
        b = getattr(x, 'bits', None)
        return 'i' if b is None else K(*b)
    if isinstance(x, (float, SymFloat)):
        return 'f'
    return 'O'


_KORD = {'b': 0, 'i': 1, 'f': 2, 'O': 3}


# ---- integer dtypes narrower than the default int64 are machine words that wrap.  The kind of such an array
#      is still 'i' (so every kind test keeps working) but carries (signed, width); int64 itself is treated as
#      unbounded (documented assumption: no 64-bit overflow).
class K(str):
    def __new__(cls, signed, width):
        o = str.__new__(cls, 'i')
        o.bits = (signed, width)
        return o

    def __reduce__(self):
        return (K, self.bits)


_WEAK = 'weak'       # a python int / bool scalar: adopts the other operand's dtype (NEP 50)


def _bits(k):
    return getattr(k, 'bits', None)


class _KW(str):
    bits = _WEAK


_KWEAK = _KW('i')


def _mk_kind(bits):
    return 'i' if bits is None or bits == _WEAK else K(*bits)


def _promote_bits(x, y):
    """numpy's result type for two integer dtypes (None = int64)."""
    if x == _WEAK:
        return y
    if y == _WEAK:
        return x
    if x is None or y is None:
        o = y if x is None else x
        if o == (False, 64):
            raise ModelGap("uint64 combined with int64 promotes to float64")
        return None
    (sx, wx), (sy, wy) = x, y
    if sx == sy:
        return (sx, builtins.max(wx, wy))
    wu, ws = (wy, wx) if sx else (wx, wy)
    if ws > wu:
        return (True, ws)
    if wu >= 64:
        raise ModelGap("uint64 combined with a signed integer promotes to float64")
    return None if 2 * wu >= 64 else (True, 2 * wu)


def _wrap(v, bits):
    """value of the mathematical integer v in a (signed, width) machine word."""
    signed, w = bits
    m = 1 << w
    lo = -(m >> 1) if signed else 0
    if isinstance(v, int):
        return i64(((int(v) - lo) % m) + lo)
    import z3 as _z3
    return symx.mk_int(((v.t - lo) % _z3.IntVal(m)) + lo)


class inarrow(i64):
    """concrete numpy scalar of a narrow integer type (what indexing an int16 array returns)."""

    def __new__(cls, v, bits):
        o = int.__new__(cls, v)
        o.bits = bits
        return o

    def __reduce__(self):
        return (inarrow, (int(self), self.bits))


class SymIntN(SymInt):
    """symbolic numpy scalar of a narrow integer type."""
    __slots__ = ('bits',)

    def __init__(self, t, bits):
        SymInt.__init__(self, t)
        self.bits = bits


def _scalar_bits(o):
    """bits of an integer scalar operand; raises ModelGap where python-int vs int64 cannot be told apart."""
    if isinstance(o, (inarrow, SymIntN)):
        return o.bits
    if type(o) in (int, bool):
        return _WEAK
    if isinstance(o, SymBool):
        return _WEAK
    if isinstance(o, i64):
        return None
    raise ModelGap("narrow integer combined with a symbolic integer scalar of unknown dtype")


def _narrow_scalar(v, bits):
    if bits is None or bits == _WEAK:
        return _plain_int(v)
    v = _wrap(_plain_int(v), bits)
    return inarrow(int(v), bits) if isinstance(v, int) else SymIntN(v.t, bits)


def _plain_int(v):
    if isinstance(v, inarrow):
        return i64(int(v))
    if isinstance(v, SymIntN):
        return SymInt(v.t)
    return v


def _narrow_op(f, rev=False):
    def op(self, o):
        if isinstance(o, (float, SymFloat)) and not isinstance(o, bool):
            a = _plain_int(self)
            return f(o, a) if rev else f(a, o)
        if not isinstance(o, (int, SymInt, SymBool)):
            return NotImplemented
        bits = _promote_bits(self.bits, _scalar_bits(o))
        a, b = _plain_int(self), _plain_int(o)
        if isinstance(b, SymBool):
            b = b._int()
        r = f(b, a) if rev else f(a, b)
        return _narrow_scalar(r, bits)
    return op


for _cls in (inarrow, SymIntN):
    _cls.__add__ = _narrow_op(lambda a, b: a + b)
    _cls.__radd__ = _narrow_op(lambda a, b: a + b, True)
    _cls.__sub__ = _narrow_op(lambda a, b: a - b)
    _cls.__rsub__ = _narrow_op(lambda a, b: a - b, True)
    _cls.__mul__ = _narrow_op(lambda a, b: a * b)
    _cls.__rmul__ = _narrow_op(lambda a, b: a * b, True)
    _cls.__neg__ = lambda self: _narrow_scalar(-_plain_int(self), self.bits)
    _cls.__abs__ = lambda self: _narrow_scalar(abs(_plain_int(self)), self.bits)
    _cls.__pos__ = lambda self: self
    _cls.__truediv__ = lambda self, o: _plain_int(self) / _plain_int(o)
    _cls.__rtruediv__ = lambda self, o: _plain_int(o) / _plain_int(self)
inarrow.__hash__ = lambda self: hash(int(self))
inarrow.__repr__ = lambda self: int.__repr__(self)


def _kmax(*ks):
    k = builtins.max(ks, key=lambda k: _KORD[k])
    if k == 'i':
        bits = _WEAK
        for x in ks:
            if x == 'i':
                bits = _promote_bits(bits, _bits(x))
        return _mk_kind(bits)
    return k


def _coerce(v, kind):
    """Value as stored in an array of ``kind``."""
    if kind == 'O':
        return v
    k = _kind_of(v)
    if k == 'O':
        if isinstance(v, ndarray) and v.size == 1:
            return _coerce(v._get_flat(0), kind)
        raise ValueError("setting an array element with a sequence.")
    if kind == 'f':
        if k == 'f':
            return f64(v) if type(v) is float else v
        if k == 'i':
            return f64(v) if isinstance(v, int) else SymFloat(symx._zr(v))
        return f64(int(v)) if isinstance(v, bool) else SymFloat(symx._zr(v))
    if kind == 'i':
        r = _coerce_int(v, k)
        b = _bits(kind)
        return r if b is None else _wrap(r, b)
    if kind == 'b':
        if k == 'b':
            return v
        if isinstance(v, (int, float)):
            return v != 0
        return v != 0
    raise ModelGap("unknown kind " + kind)


def _coerce_int(v, k):
    if k == 'i':
        v = _plain_int(v)
        return i64(v) if type(v) is int else v
    if k == 'b':
        return i64(int(v)) if isinstance(v, bool) else SymInt(symx._zi(v))
    if isinstance(v, float):
        if v != v or v in (float('inf'), float('-inf')):
            raise ValueError("cannot convert float NaN/inf to integer")
        return i64(int(v))
    # numpy casts by truncating toward zero (NaN flags are not representable: be honest about those)
    if isinstance(v, SymFloat) and v.nan is None:
        import z3 as _z3
        return SymInt(_z3.If(v.t >= 0, _z3.ToInt(v.t), -_z3.ToInt(-v.t)))
    raise ModelGap("storing a symbolic NaN-able real into an integer array")


def _wrap_scalar(v):
    if type(v) is float:
        return f64(v)
    if type(v) is int:
        return i64(v)
    return v


def _div(a, b):
    if isinstance(a, (SymBool, SymInt, SymFloat)) or isinstance(b, (SymBool, SymInt, SymFloat)):
        return symx.sym_div(a, b)
    return f64(conc_div(float(a), float(b)))


def _lt(a, b):
    return a < b


def _not(x):
    return (not x) if isinstance(x, bool) else ~x


def _and(a, b):
    if isinstance(a, bool) and isinstance(b, bool):
        return a and b
    return a & b


def _or(a, b):
    if isinstance(a, bool) and isinstance(b, bool):
        return a or b
    return a | b


def _abs(x):
    return builtins.abs(x)


# --------------------------------------------------------------------------- ndarray

def _prod(shape):
    p = 1
    for s in shape:
        p *= s
    return p


def _strides(shape):
    st = []
    p = 1
    for s in reversed(shape):
        st.append(p)
        p *= s
    return tuple(reversed(st))


class _Flags:
    def __init__(self, a):
        self._a = a

    @property
    def writeable(self):
        return self._a._writeable

    @writeable.setter
    def writeable(self, v):
        self._a._writeable = bool(v)

    @property
    def c_contiguous(self):
        return self._a._c_contiguous()

    @property
    def f_contiguous(self):
        return self._a._f_contiguous()

    def __getitem__(self, k):
        return {'C_CONTIGUOUS': self.c_contiguous, 'F_CONTIGUOUS': self.f_contiguous, 'WRITEABLE': self.writeable}[k]


class ndarray:
    __array_priority__ = 100

    def __init__(self, store, idx, shape, kind, writeable=True, base=None):
        self._store = store          # shared python list
        self._idx = idx              # list of offsets into store, row-major for ``shape``
        self.shape = tuple(shape)
        self.kind = kind
        self._writeable = writeable
        self.base = base

    # ---- construction helpers
    @staticmethod
    def _from_flat(vals, shape, kind):
        vals = [_coerce(v, kind) for v in vals]
        return ndarray(vals, list(range(len(vals))), shape, kind)

    # ---- basic attributes
    @property
    def ndim(self):
        return len(self.shape)

    @property
    def size(self):
        return _prod(self.shape)

    @property
    def flags(self):
        return _Flags(self)

    @property
    def dtype(self):
        b = _bits(self.kind)
        if b is not None:
            return _BITS_NAME[b]
        return {'b': bool, 'i': int, 'f': float, 'O': object}[self.kind]

    @property
    def T(self):
        if self.ndim < 2:
            return self
        return swapaxes(self, 0, 1) if self.ndim == 2 else _gap("T of >2-D")

    def __len__(self):
        if not self.shape:
            raise TypeError("len() of unsized object")
        return self.shape[0]

    def _get_flat(self, i):
        return self._store[self._idx[i]]

    def _flat_values(self):
        st = self._store
        return [st[i] for i in self._idx]

    def _cells(self):
        """elements as numpy scalars (narrow integer types keep their type: pandas cells)."""
        b = _bits(self.kind)
        if b is None:
            return self._flat_values()
        return [_narrow_scalar(v, b) for v in self._flat_values()]

    def tolist(self):
        def build(vals, shape):
            if not shape:
                return vals[0]
            if len(shape) == 1:
                return list(vals)
            step = _prod(shape[1:])
            return [build(vals[i * step:(i + 1) * step], shape[1:]) for i in range(shape[0])]
        return build(self._flat_values(), self.shape)

    def copy(self):
        return ndarray(self._flat_values(), list(range(self.size)), self.shape, self.kind)

    def __copy__(self):
        return self.copy()

    def __deepcopy__(self, memo):
        import copy as _c
        if self.kind == 'O':
            vals = [_c.deepcopy(v, memo) for v in self._flat_values()]
        else:
            vals = self._flat_values()
        return ndarray(vals, list(range(self.size)), self.shape, self.kind)

    def astype(self, t):
        k = _type_kind(t)
        return ndarray._from_flat(self._flat_values(), self.shape, k)

    # ---- memory layout (offsets into the shared store): contiguity decides view-vs-copy and the
    #      element order of order='A' / 'K' / 'F'
    def _c_contiguous(self):
        idx = self._idx
        return builtins.all(idx[i + 1] == idx[i] + 1 for i in range(len(idx) - 1))

    def _f_order_idx(self):
        """offsets in Fortran (column-major) index order."""
        if self.ndim < 2:
            return list(self._idx)
        st = _strides(self.shape)
        out = []
        for combo in itertools.product(*[range(n) for n in reversed(self.shape)]):
            flat = 0
            for c, stv in zip(reversed(combo), st):
                flat += c * stv
            out.append(self._idx[flat])
        return out

    def _f_contiguous(self):
        idx = self._f_order_idx()
        return builtins.all(idx[i + 1] == idx[i] + 1 for i in range(len(idx) - 1))

    def _order_idx(self, order):
        if order in ('C', None):
            return list(self._idx)
        if order == 'F':
            return self._f_order_idx()
        if order == 'A':
            return self._f_order_idx() if (self._f_contiguous() and not self._c_contiguous()) else list(self._idx)
        if order == 'K':
            if self._c_contiguous():
                return list(self._idx)
            if self._f_contiguous():
                return self._f_order_idx()
            if len(set(self._idx)) == len(self._idx):
                # numpy walks the axes from the smallest stride up; for the views bycycle-style code builds
                # (slices with steps, flips, transposes) that is memory order of |strides|; be honest otherwise
                srt = sorted(self._idx)
                if self.ndim == 1:
                    return list(self._idx)           # 1-D: index order (a flip stays flipped)
                return srt
            raise ModelGap("order='K' on an array with repeated elements")
        raise ValueError("order must be one of 'C', 'F', 'A', or 'K' (got %r)" % (order,))

    def flatten(self, order='C'):
        st = self._store
        return ndarray([st[i] for i in self._order_idx(order)], list(range(self.size)), (self.size,), self.kind)

    def ravel(self, order='C'):
        idx = self._order_idx(order)
        viewable = (order in ('C', None) and self._c_contiguous()) or \
                   (order == 'F' and self._f_contiguous()) or \
                   (order in ('A', 'K') and (self._c_contiguous() or self._f_contiguous()))
        if viewable:
            return ndarray(self._store, idx, (self.size,), self.kind, self._writeable, self)
        st = self._store
        return ndarray([st[i] for i in idx], list(range(self.size)), (self.size,), self.kind)     # a copy

    def reshape(self, *shape, order='C'):
        if len(shape) == 1 and isinstance(shape[0], (tuple, list)):
            shape = tuple(shape[0])
        shape = tuple(int(s) for s in shape)
        if -1 in shape:
            known = _prod([s for s in shape if s != -1])
            shape = tuple(self.size // known if s == -1 else s for s in shape)
        if _prod(shape) != self.size:
            raise ValueError("cannot reshape array of size %d into shape %s" % (self.size, shape))
        fortran = order == 'F' or (order == 'A' and self._f_contiguous() and not self._c_contiguous())
        if order not in ('C', 'F', 'A', None):
            raise ValueError("order must be one of 'C', 'F', 'A'")
        if not fortran:
            # reading in C index order; a view whenever possible (always for our offset lists)
            return ndarray(self._store, list(self._idx), shape, self.kind, self._writeable, self)
        # Fortran index order for both reading and placing
        src = self._f_order_idx()
        n = len(src)
        dst = [None] * n
        st_new = _strides(shape)
        k = 0
        for combo in itertools.product(*[range(m) for m in reversed(shape)]):
            flat = 0
            for c, stv in zip(reversed(combo), st_new):
                flat += c * stv
            dst[flat] = src[k]
            k += 1
        return ndarray(self._store, dst, shape, self.kind, self._writeable, self)

    def __iter__(self):
        if not self.shape:
            raise TypeError("iteration over a 0-d array")
        for i in range(self.shape[0]):
            yield self[i]

    def __array__(self):
        return self

    def __getattr__(self, name):
        if name.startswith('_'):
            raise AttributeError(name)
        raise ModelGap("ndarray.%s is not modelled" % name)

    def __repr__(self):
        return "array(%r, kind=%s)" % (self.tolist(), self.kind)

    def __bool__(self):
        if self.size != 1:
            raise ValueError("The truth value of an array with more than one element is ambiguous. "
                             "Use a.any() or a.all()")
        return bool(self._get_flat(0))

    def __int__(self):
        if self.size != 1:
            raise TypeError("only length-1 arrays can be converted to Python scalars")
        return int(self._get_flat(0))

    __index__ = __int__

    def __float__(self):
        if self.size != 1:
            raise TypeError("only length-1 arrays can be converted to Python scalars")
        return float(self._get_flat(0))

    __hash__ = None

    # ---- indexing
    def _resolve(self, key):
        """-> (list of offsets, result shape, is_view) for a basic/advanced key."""
        if not isinstance(key, tuple):
            key = (key,)
        # expand Ellipsis
        if builtins.any(k is Ellipsis for k in key):
            n_other = len([k for k in key if k is not Ellipsis and k is not None])
            out = []
            for k in key:
                if k is Ellipsis:
                    out.extend([slice(None)] * (self.ndim - n_other))
                else:
                    out.append(k)
            key = tuple(out)
        key = tuple(_as_index(k) for k in key)
        # boolean mask over the full array / first axis
        if len(key) == 1 and isinstance(key[0], ndarray) and key[0].kind == 'b':
            mask = key[0]
            if mask.ndim != 1 or self.ndim < 1:
                raise ModelGap("boolean mask indexing only for 1-D masks")
            if mask.shape[0] != self.shape[0]:
                raise IndexError("boolean index did not match indexed array along axis 0; size of axis is %d "
                                 "but size of corresponding boolean axis is %d" % (self.shape[0], mask.shape[0]))
            sel = [i for i, m in enumerate(mask._flat_values()) if symx.truth(m)]
            return self._take_rows(sel), (len(sel),) + self.shape[1:], False
        if len(key) == 1 and isinstance(key[0], ndarray):
            ia = key[0]
            if ia.kind not in ('i',):
                # numpy refuses float / object index arrays even when they are empty (np.array([]) is float64)
                raise IndexError("arrays used as indices must be of integer (or boolean) type")
            if ia.ndim != 1:
                raise ModelGap("integer-array indexing only with 1-D index arrays")
            sel = [self._norm_index(int(v), 0) for v in ia._flat_values()]
            return self._take_rows(sel), (len(sel),) + self.shape[1:], False
        if builtins.any(isinstance(k, ndarray) for k in key):
            raise ModelGap("mixed advanced indexing")
        if len([k for k in key if k is not None]) > self.ndim:
            raise IndexError("too many indices for array: array is %d-dimensional, but %d were indexed"
                             % (self.ndim, len([k for k in key if k is not None])))
        # basic indexing: ints / slices / None
        per_axis = []
        out_shape = []
        ax = 0
        for k in key:
            if k is None:
                out_shape.append(('new',))
                continue
            n = self.shape[ax]
            if isinstance(k, slice):
                r = range(*_slice_indices(k, n))
                per_axis.append(list(r))
                out_shape.append(len(r))
            else:
                i = self._norm_index(int(k), ax)
                per_axis.append([i])
                out_shape.append(None)
            ax += 1
        while ax < self.ndim:
            per_axis.append(list(range(self.shape[ax])))
            out_shape.append(self.shape[ax])
            ax += 1
        st = _strides(self.shape)
        offs = []
        for combo in itertools.product(*per_axis):
            flat = 0
            for c, s in zip(combo, st):
                flat += c * s
            offs.append(self._idx[flat])
        shape = tuple(1 if s == ('new',) else s for s in out_shape if s is not None)
        return offs, shape, True

    def _norm_index(self, i, ax):
        n = self.shape[ax]
        if i < -n or i >= n:
            raise IndexError("index %d is out of bounds for axis %d with size %d" % (i, ax, n))
        return i + n if i < 0 else i

    def _take_rows(self, sel):
        row = _prod(self.shape[1:])
        offs = []
        for r in sel:
            offs.extend(self._idx[r * row:(r + 1) * row])
        return offs

    def __getitem__(self, key):
        if self.ndim == 0:
            raise IndexError("too many indices for array")
        offs, shape, view = self._resolve(key)
        if shape == ():
            b = _bits(self.kind)
            if b is not None:
                return _narrow_scalar(self._store[offs[0]], b)
            return _wrap_scalar(self._store[offs[0]])
        if view:
            return ndarray(self._store, offs, shape, self.kind, self._writeable, self)
        st = self._store
        return ndarray([st[o] for o in offs], list(range(len(offs))), shape, self.kind)

    def __setitem__(self, key, value):
        if not self._writeable:
            raise ValueError("assignment destination is read-only")
        offs, shape, _ = self._resolve(key)
        if _WRITE_LOG is not None:
            _WRITE_LOG.append((id(self._store), 'setitem'))
        n = len(offs)
        if isinstance(value, (list, tuple)) or _is_series(value):
            value = asarray(value)
        if isinstance(value, ndarray):
            vals = value._flat_values()
            if len(vals) == n:
                pass
            elif len(vals) == 1:
                vals = vals * n
            elif n and len(vals) and n % len(vals) == 0 and value.shape == shape[-value.ndim:]:
                vals = vals * (n // len(vals))
            else:
                raise ValueError("could not broadcast input array from shape %s into shape %s"
                                 % (value.shape, shape))
            if n == 1 and shape == () and self.kind != 'O' and value.ndim > 0 and value.size != 1:
                raise ValueError("setting an array element with a sequence.")
        else:
            vals = [value] * n
        k = self.kind
        st = self._store
        for o, v in zip(offs, vals):
            st[o] = _coerce(v, k)

    # ---- elementwise machinery
    def _unary(self, f, kind=None):
        vals = [f(v) for v in self._flat_values()]
        k = kind or self.kind
        b = _bits(k)
        if b is not None:
            vals = [_wrap(_plain_int(v), b) for v in vals]
        return ndarray(vals, list(range(len(vals))), self.shape, k)

    def _binary(self, o, f, kind_fn, rev=False):
        if _is_series(o) or _is_frame(o):
            return NotImplemented
        if isinstance(o, (list, tuple)):
            o = asarray(o)
        if isinstance(o, ndarray):
            a, b = (o, self) if rev else (self, o)
            shape = _bshape(a.shape, b.shape)
            av = _bvals(a, shape)
            bv = _bvals(b, shape)
            vals = [f(x, y) for x, y in zip(av, bv)]
            k = kind_fn(a.kind, b.kind)
            if k is None:
                k = _infer_kind(vals, a.kind, b.kind)
            return ndarray([_coerce(v, k) for v in vals], list(range(len(vals))), shape, k)
        if o is None or isinstance(o, (str, dict)):
            return NotImplemented
        ko = _kind_of(o)
        if ko == 'i' and _bits(self.kind) is not None:
            # scalar operand of a narrow integer array: python ints are weak, numpy scalars promote
            sb = _scalar_bits(o)
            ko = _KWEAK if sb == _WEAK else _mk_kind(sb)
            o = _plain_int(o)
        elif ko == 'i':
            o = _plain_int(o)
        if rev:
            vals = [f(o, x) for x in self._flat_values()]
            k = kind_fn(ko, self.kind)
        else:
            vals = [f(x, o) for x in self._flat_values()]
            k = kind_fn(self.kind, ko)
        if k is None:
            k = _infer_kind(vals, self.kind, ko)
        return ndarray([_coerce(v, k) for v in vals], list(range(len(vals))), self.shape, k)

    def __add__(self, o):
        return self._binary(o, _add, _k_arith)

    def __radd__(self, o):
        return self._binary(o, _add, _k_arith, True)

    def __sub__(self, o):
        return self._binary(o, _sub, _k_sub)

    def __rsub__(self, o):
        return self._binary(o, _sub, _k_sub, True)

    def __mul__(self, o):
        return self._binary(o, _mul, _k_arith)

    def __rmul__(self, o):
        return self._binary(o, _mul, _k_arith, True)

    def __truediv__(self, o):
        return self._binary(o, _div, _k_float)

    def __rtruediv__(self, o):
        return self._binary(o, _div, _k_float, True)

    def __floordiv__(self, o):
        return self._binary(o, _floordiv, _k_arith)

    def __mod__(self, o):
        return self._binary(o, lambda a, b: a % b, _k_arith)

    def __pow__(self, o):
        if isinstance(o, int) and o == 2:
            return self * self
        raise ModelGap("pow")

    def __neg__(self):
        if self.kind == 'b':
            raise TypeError("The numpy boolean negative, the `-` operator, is not supported, "
                            "use the `~` operator or the logical_not function instead.")
        return self._unary(lambda v: -v)

    def __pos__(self):
        return self.copy()

    def __abs__(self):
        return self._unary(_abs)

    def __invert__(self):
        if self.kind == 'b':
            return self._unary(_not)
        if self.kind == 'i':
            return self._unary(lambda v: -v - 1)
        raise TypeError("ufunc 'invert' not supported for the input types")

    def __and__(self, o):
        return self._binary(o, _bitand, _k_bit)

    __rand__ = __and__

    def __or__(self, o):
        return self._binary(o, _bitor, _k_bit)

    __ror__ = __or__

    def __xor__(self, o):
        return self._binary(o, lambda a, b: a ^ b, _k_bit)

    def __lt__(self, o):
        return self._binary(o, lambda a, b: a < b, _k_bool)

    def __le__(self, o):
        return self._binary(o, lambda a, b: a <= b, _k_bool)

    def __gt__(self, o):
        return self._binary(o, lambda a, b: a > b, _k_bool)

    def __ge__(self, o):
        return self._binary(o, lambda a, b: a >= b, _k_bool)

    def __eq__(self, o):
        if o is None:
            return ndarray._from_flat([v is None for v in self._flat_values()], self.shape, 'b') \
                if self.kind == 'O' else ndarray._from_flat([False] * self.size, self.shape, 'b')
        if isinstance(o, str):
            return ndarray._from_flat([v == o if isinstance(v, str) else False
                                       for v in self._flat_values()], self.shape, 'b')
        return self._binary(o, _eq, _k_bool)

    def __ne__(self, o):
        if o is None or isinstance(o, str):
            return ~(self == o)
        return self._binary(o, _ne, _k_bool)

    # in-place operators write through to the same storage
    def _inplace(self, o, f):
        if not self._writeable:
            raise ValueError("output array is read-only")
        r = f(self, o)
        if r.shape != self.shape:
            raise ValueError("non-broadcastable output operand")
        if _KORD[r.kind] > _KORD[self.kind] and self.kind != 'O':
            raise TypeError("Cannot cast ufunc output from kind %s to %s with casting rule 'same_kind'"
                            % (r.kind, self.kind))
        if _WRITE_LOG is not None:
            _WRITE_LOG.append((id(self._store), 'inplace'))
        for off, v in zip(self._idx, r._flat_values()):
            self._store[off] = _coerce(v, self.kind)
        return self

    def __iadd__(self, o):
        return self._inplace(o, lambda a, b: a + b)

    def __isub__(self, o):
        return self._inplace(o, lambda a, b: a - b)

    def __imul__(self, o):
        return self._inplace(o, lambda a, b: a * b)

    def __itruediv__(self, o):
        return self._inplace(o, lambda a, b: a / b)

    def __iand__(self, o):
        return self._inplace(o, lambda a, b: a & b)

    def __ior__(self, o):
        return self._inplace(o, lambda a, b: a | b)

    # ---- methods
    def nonzero(self):
        if self.ndim != 1:
            raise ModelGap("nonzero for ndim != 1")
        return (_int_array([i for i, v in enumerate(self._flat_values()) if _truthy(v)]),)

    def any(self, axis=None):
        if axis is not None:
            raise ModelGap("any(axis)")
        r = False
        for v in self._flat_values():
            r = _or(r, _as_boolval(v))
        return r

    def all(self, axis=None):
        if axis is not None:
            raise ModelGap("all(axis)")
        r = True
        for v in self._flat_values():
            r = _and(r, _as_boolval(v))
        return r

    def sum(self, axis=None):
        return sum(self, axis=axis)

    def mean(self, axis=None):
        return mean(self, axis=axis)

    def min(self, axis=None):
        return min(self, axis=axis)

    def max(self, axis=None):
        return max(self, axis=axis)

    def argmax(self):
        return argmax(self)

    def argmin(self):
        return argmin(self)

    def fill(self, v):
        self[...] = v

    def item(self):
        if self.size != 1:
            raise ValueError("can only convert an array of size 1 to a Python scalar")
        return self._get_flat(0)

    def swapaxes(self, a, b):
        return swapaxes(self, a, b)

    def squeeze(self):
        return ndarray(self._store, list(self._idx), tuple(s for s in self.shape if s != 1),
                       self.kind, self._writeable, self)

    def cumsum(self):
        return cumsum(self)


class LazyArray(ndarray):
    """1-D signal of unbounded length of which only the values at finitely many (symbolic, pairwise distinct)
    positions are known: indexing with exactly those position terms returns the values, every other access
    leaves the modelled subset.  Lets sample positions be unbounded integers."""

    def __init__(self, points, kind='f'):
        ndarray.__init__(self, [], [], (1 << 40,), kind)
        self._points = [(p, _coerce(v, kind)) for p, v in points]

    def _lookup(self, i):
        for p, v in self._points:
            if isinstance(i, SymInt) and isinstance(p, SymInt):
                if i.t.eq(p.t):
                    return v
            elif isinstance(i, int) and isinstance(p, int) and not isinstance(i, bool):
                if int(i) == int(p):
                    return v
        raise ModelGap("lazy signal read at a position that is not one of its known cyclepoints")

    def __getitem__(self, key):
        if _is_series(key):
            key = key._to_array()
        elif isinstance(key, list):
            key = asarray(key)
        if isinstance(key, ndarray) and key.kind == 'i' and key.ndim == 1:
            vals = [self._lookup(v) for v in key._flat_values()]
            return ndarray(vals, list(range(len(vals))), (len(vals),), self.kind)
        if isinstance(key, (int, SymInt)) and not isinstance(key, bool):
            b = _bits(self.kind)
            v = self._lookup(key)
            return _narrow_scalar(v, b) if b is not None else _wrap_scalar(v)
        raise ModelGap("lazy signal: unsupported index")

    def __setitem__(self, key, value):
        raise ModelGap("lazy signal: write")

    def _flat_values(self):
        raise ModelGap("lazy signal: whole-array operation")

    def copy(self):
        return LazyArray(self._points, self.kind)

    def astype(self, t):
        return LazyArray(self._points, _type_kind(t))

    def __len__(self):
        raise ModelGap("lazy signal: len()")


def _arith_progression(idx):
    return len(idx) < 2 or builtins.all(idx[i + 1] - idx[i] == idx[1] - idx[0] for i in range(len(idx) - 1))


def _gap(msg):
    raise ModelGap(msg)


def _is_series(x):
    return type(x).__name__ == 'Series' and hasattr(x, '_vals')


def _is_frame(x):
    return type(x).__name__ == 'DataFrame' and hasattr(x, '_cols')


def _as_index(k):
    if k is None or k is Ellipsis or isinstance(k, slice):
        if isinstance(k, slice):
            return slice(_idx_int(k.start), _idx_int(k.stop), _idx_int(k.step))
        return k
    if isinstance(k, ndarray):
        if k.ndim == 0:
            return int(k._get_flat(0))
        return k
    if _is_series(k):
        return k._to_array()
    if isinstance(k, (list, range)):
        return asarray(list(k))
    if isinstance(k, (bool, SymBool)):
        raise ModelGap("scalar boolean index")
    if isinstance(k, (int, SymInt)):
        return int(k)
    if isinstance(k, float):
        raise IndexError("only integers, slices (`:`), ellipsis (`...`), numpy.newaxis (`None`) and integer or "
                         "boolean arrays are valid indices")
    if isinstance(k, SymFloat):
        raise IndexError("only integers, slices (`:`), ellipsis (`...`), numpy.newaxis (`None`) and integer or "
                         "boolean arrays are valid indices")
    raise IndexError("unsupported index %r" % (type(k),))


def _idx_int(v):
    if v is None:
        return None
    if isinstance(v, ndarray):
        return int(v)
    if isinstance(v, float) or isinstance(v, SymFloat):
        raise TypeError("slice indices must be integers or None or have an __index__ method")
    return int(v)


def _slice_indices(s, n):
    return s.indices(n)


def _truthy(v):
    if isinstance(v, (bool, SymBool)):
        return symx.truth(v)
    if isinstance(v, float) and v != v:
        return True
    return symx.truth(v != 0)


def _as_boolval(v):
    if isinstance(v, (bool, SymBool)):
        return v
    if isinstance(v, float) and v != v:
        return True
    return v != 0


def _add(a, b):
    if isinstance(a, bool) and isinstance(b, bool):
        return a or b
    if isinstance(a, SymBool) and isinstance(b, (SymBool, bool)) or isinstance(b, SymBool) and isinstance(a, bool):
        return a | b
    return a + b


def _sub(a, b):
    return a - b


def _mul(a, b):
    if isinstance(a, (bool, SymBool)) and isinstance(b, (bool, SymBool)):
        return _and(a, b)
    return a * b


def _floordiv(a, b):
    if isinstance(b, int) and not isinstance(b, bool) and b == 0 and isinstance(a, int):
        return 0
    if isinstance(a, float) or isinstance(b, float):
        return f64(math.floor(conc_div(float(a), float(b)))) if not symx._is_sym(a) and not symx._is_sym(b) \
            else _gap("symbolic float floordiv")
    return a // b


def _bitand(a, b):
    if isinstance(a, (bool, SymBool)) and isinstance(b, (bool, SymBool)):
        return _and(a, b)
    if isinstance(a, int) and isinstance(b, int):
        return int(a) & int(b)
    raise ModelGap("bitwise and on symbolic ints")


def _bitor(a, b):
    if isinstance(a, (bool, SymBool)) and isinstance(b, (bool, SymBool)):
        return _or(a, b)
    if isinstance(a, int) and isinstance(b, int):
        return int(a) | int(b)
    raise ModelGap("bitwise or on symbolic ints")


def _eq(a, b):
    if isinstance(a, float) and a != a or isinstance(b, float) and b != b:
        return False
    r = a == b
    return r


def _ne(a, b):
    if isinstance(a, float) and a != a or isinstance(b, float) and b != b:
        return True
    return a != b


def _k_arith(a, b):
    if 'O' in (a, b):
        return 'O'
    return _kmax(a, b)


def _k_sub(a, b):
    if a == 'b' and b == 'b':
        raise TypeError("numpy boolean subtract, the `-` operator, is not supported, use the bitwise_xor, "
                        "the `^` operator, or the logical_xor function instead.")
    return _k_arith(a, b)


def _k_float(a, b):
    return 'O' if 'O' in (a, b) else 'f'


def _k_bool(a, b):
    return 'b'


def _k_bit(a, b):
    if 'f' in (a, b) or 'O' in (a, b):
        raise TypeError("ufunc 'bitwise_and' not supported for the input types, and the inputs could not be "
                        "safely coerced to any supported types according to the casting rule ''safe''")
    return _kmax(a, b)


def _infer_kind(vals, *ks):
    return _kmax(*ks)


def _bshape(a, b):
    n = builtins.max(len(a), len(b))
    a2 = (1,) * (n - len(a)) + tuple(a)
    b2 = (1,) * (n - len(b)) + tuple(b)
    out = []
    for x, y in zip(a2, b2):
        if x == y or y == 1:
            out.append(x)
        elif x == 1:
            out.append(y)
        else:
            raise ValueError("operands could not be broadcast together with shapes %s %s" % (a, b))
    return tuple(out)


def _bvals(a, shape):
    if a.shape == shape:
        return a._flat_values()
    n = len(shape)
    ash = (1,) * (n - len(a.shape)) + tuple(a.shape)
    vals = a._flat_values()
    ast = _strides(ash)
    out = []
    for combo in itertools.product(*[range(s) for s in shape]):
        flat = 0
        for c, s, st in zip(combo, ash, ast):
            flat += (c if s != 1 else 0) * st
        out.append(vals[flat])
    return out


class _DType:
    """dtype object of a narrow integer type (np.int16, arr.dtype of such an array)."""
    def __init__(self, name, bits):
        self.name, self.bits = name, bits
        self.kind = 'i' if bits[0] else 'u'
        self.itemsize = bits[1] // 8

    def __eq__(self, o):
        if isinstance(o, _DType):
            return self.bits == o.bits
        if isinstance(o, str):
            return o == self.name
        return False

    def __ne__(self, o):
        return not self.__eq__(o)

    def __hash__(self):
        return hash(self.name)

    def __repr__(self):
        return "dtype('%s')" % self.name

    def __str__(self):
        return self.name

    def __call__(self, v):
        return _narrow_scalar(_coerce_int(v, _kind_of(v)), self.bits)


_NARROW = {}
for _nm, _b in (('int8', (True, 8)), ('int16', (True, 16)), ('int32', (True, 32)),
                ('uint8', (False, 8)), ('uint16', (False, 16)), ('uint32', (False, 32)), ('uint64', (False, 64))):
    _NARROW[_nm] = _DType(_nm, _b)
    globals()[_nm] = _NARROW[_nm]
_BITS_NAME = {d.bits: d for d in _NARROW.values()}


def _type_kind(t):
    if isinstance(t, _DType):
        return K(*t.bits)
    if isinstance(t, str) and t in _NARROW:
        return K(*_NARROW[t].bits)
    if isinstance(t, K):
        return t
    if t in (int, 'int', 'int64', 'i8'):
        return 'i'
    if t in (float, 'float', 'float64', 'f8'):
        return 'f'
    if t in (bool, 'bool'):
        return 'b'
    if t in (object, 'object', 'O'):
        return 'O'
    raise ModelGap("dtype %r" % (t,))


def _int_array(vals):
    vals = [i64(v) if type(v) is int else v for v in vals]
    return ndarray(vals, list(range(len(vals))), (len(vals),), 'i')


# --------------------------------------------------------------------------- creation

def _shape_of(obj):
    if isinstance(obj, ndarray):
        return obj.shape
    if _is_series(obj):
        return (len(obj),)
    if isinstance(obj, (list, tuple)):
        if len(obj) == 0:
            return (0,)
        subs = [_shape_of(o) for o in obj]
        if builtins.all(s == subs[0] for s in subs) and subs[0] is not None:
            return (len(obj),) + subs[0]
        if builtins.any(s is not None and s != () for s in subs):
            raise ValueError("setting an array element with a sequence. The requested array has an "
                             "inhomogeneous shape")
        return (len(obj),)
    return ()


def _flatten_obj(obj, out):
    if isinstance(obj, ndarray):
        out.extend(obj._flat_values())
    elif _is_series(obj):
        out.extend(obj._vals)
    elif isinstance(obj, (list, tuple)):
        for o in obj:
            _flatten_obj(o, out)
    else:
        out.append(obj)


def array(obj, dtype=None, copy=True):
    if isinstance(obj, ndarray):
        r = obj.copy()
        return r.astype(dtype) if dtype is not None else r
    if _is_series(obj):
        r = obj._to_array().copy()
        return r.astype(dtype) if dtype is not None else r
    if isinstance(obj, (range, zip, map)) or hasattr(obj, '__next__'):
        if isinstance(obj, range):
            obj = list(obj)
        else:
            raise ModelGap("np.array of an iterator")
    if isinstance(obj, dict) or obj is None or isinstance(obj, str):
        return ndarray([obj], [0], (), 'O')
    if not isinstance(obj, (list, tuple)):
        k = _kind_of(obj)
        return ndarray([_coerce(obj, k)], [0], (), k)
    shape = _shape_of(obj)
    vals = []
    _flatten_obj(obj, vals)
    if _prod(shape) != len(vals):
        raise ModelGap("ragged array")
    if dtype is not None:
        k = _type_kind(dtype)
    else:
        k = 'f' if not vals else _kmax(*[_kind_of(v) for v in vals])
    return ndarray._from_flat(vals, shape, k)


def asarray(obj, dtype=None):
    if isinstance(obj, ndarray) and (dtype is None or (_type_kind(dtype) == obj.kind and _bits(_type_kind(dtype)) == _bits(obj.kind))):
        return obj
    if _is_series(obj) and dtype is None:
        return obj._to_array()
    return array(obj, dtype=dtype)


asanyarray = asarray


def zeros(shape, dtype=float):
    if isinstance(shape, (int, SymInt)):
        shape = (int(shape),)
    shape = tuple(int(s) for s in shape)
    k = _type_kind(dtype)
    z = {'f': f64(0.0), 'i': i64(0), 'b': False, 'O': 0}[k]
    return ndarray([z] * _prod(shape), list(range(_prod(shape))), shape, k)


def ones(shape, dtype=float):
    r = zeros(shape, dtype)
    r._store = [_coerce(1, r.kind)] * r.size
    return r


def empty(shape, dtype=float):
    return zeros(shape, dtype)


def full(shape, v, dtype=None):
    if isinstance(shape, (int, SymInt)):
        shape = (int(shape),)
    k = _type_kind(dtype) if dtype is not None else _kind_of(v)
    return ndarray._from_flat([v] * _prod(shape), tuple(shape), k)


def zeros_like(a, dtype=None, shape=None):
    a = asarray(a)
    return zeros(a.shape if shape is None else shape, dtype if dtype is not None else a.dtype)


def ones_like(a, dtype=None, shape=None):
    a = asarray(a)
    return ones(a.shape if shape is None else shape, dtype if dtype is not None else a.dtype)


def full_like(a, fill_value, dtype=None, shape=None):
    """takes the dtype of ``a``: NaN into an integer array is numpy's INT_MIN cast (modelled as an error:
    the value is garbage either way and must never be believed)."""
    a = asarray(a)
    k = _type_kind(dtype) if dtype is not None else a.kind
    shp = a.shape if shape is None else ((int(shape),) if isinstance(shape, (int, SymInt)) else tuple(shape))
    if k in ('i', 'b') and isinstance(fill_value, float) and (fill_value != fill_value or fill_value in (float('inf'), float('-inf'))):
        v = i64(-9223372036854775808) if k == 'i' else True
        return ndarray([v] * _prod(shp), list(range(_prod(shp))), shp, k)
    return ndarray._from_flat([fill_value] * _prod(shp), shp, k)


def arange(*args, dtype=None):
    if len(args) == 1:
        start, stop, step = 0, args[0], 1
    elif len(args) == 2:
        start, stop, step = args[0], args[1], 1
    else:
        start, stop, step = args
    syms = [a for a in (start, stop, step) if symx._is_sym(a)]
    if not syms:
        if builtins.all(isinstance(a, int) for a in (start, stop, step)):
            return _int_array(list(range(int(start), int(stop), int(step))))
        # float arange: length = ceil((stop-start)/step) in floating point, value = start + i*step
        n = int(math.ceil((float(stop) - float(start)) / float(step)))
        n = builtins.max(n, 0)
        vals = [f64(float(start) + i * float(step)) for i in range(n)]
        return ndarray(vals, list(range(n)), (n,), 'f')
    # symbolic bounds: real-arithmetic semantics, length decided by forking
    if symx.truth(step == 0):
        raise ZeroDivisionError("division by zero")
    if not symx.truth(step > 0):
        raise ModelGap("arange with negative symbolic step")
    vals = []
    k = 0
    while True:
        v = start + k * step
        if not symx.truth(v < stop):
            break
        vals.append(v)
        k += 1
        if k > 4096:
            raise ModelGap("arange longer than 4096")
    kind = _kmax(*[_kind_of(a) for a in (start, stop, step)])
    if kind == 'b':
        kind = 'i'
    return ndarray._from_flat(vals, (len(vals),), kind)


def linspace(start, stop, num=50, endpoint=True, dtype=None):
    """numpy: step = (stop - start) / div ; y = arange(num) * step + start (last point fixed if endpoint)."""
    num = int(num)
    if builtins.any(symx._is_sym(v) for v in (start, stop)):
        raise ModelGap("linspace with symbolic bounds")
    if num < 0:
        raise ValueError("Number of samples, %d, must be non-negative." % num)
    div = (num - 1) if endpoint else num
    start, stop = float(start), float(stop)
    if num == 0:
        return ndarray([], [], (0,), 'f')
    delta = stop - start
    if div > 0:
        step = delta / div
        vals = [f64(i * step + start) for i in range(num)] if step != 0 else [f64(i / div * delta + start) for i in range(num)]
    else:
        vals = [f64(start)] * num
    if endpoint and num > 1:
        vals[-1] = f64(stop)
    return ndarray(vals, list(range(num)), (num,), 'f')


# --------------------------------------------------------------------------- functions

def shape(a):
    if isinstance(a, ndarray):
        return a.shape
    if hasattr(a, 'shape') and not isinstance(a, (list, tuple, dict)):
        return a.shape          # numpy: ``try: a.shape except AttributeError: asarray(a).shape``
    return _shape_of(a)


def ndim(a):
    return len(shape(a))


def size(a):
    return _prod(shape(a))


def copy(a):
    return asarray(a).copy()


def logical_and(a, b):
    a = asarray(a)
    return a._binary(b, lambda x, y: _and(_as_boolval(x), _as_boolval(y)), _k_bool)


def logical_or(a, b):
    a = asarray(a)
    return a._binary(b, lambda x, y: _or(_as_boolval(x), _as_boolval(y)), _k_bool)


def logical_not(a):
    a = asarray(a)
    return a._unary(lambda v: _not(_as_boolval(v)), 'b')


def abs(a):  # noqa
    if isinstance(a, ndarray):
        return a._unary(_abs)
    if _is_series(a):
        return a.abs()
    if isinstance(a, (list, tuple)):
        return asarray(a)._unary(_abs)
    return _abs(a)


absolute = abs


def _reduce_vals(a, axis):
    if axis is not None:
        raise ModelGap("reduction along an axis")
    if _is_series(a):
        return list(a._vals)
    if _is_frame(a):
        raise ModelGap("reduction of a DataFrame")
    return asarray(a)._flat_values()


def sum(a, axis=None):  # noqa
    vals = _reduce_vals(a, axis)
    tot = i64(0)
    kind = asarray(a).kind if not _is_series(a) else a._to_array().kind
    if kind == 'f':
        tot = f64(0.0)
    for v in vals:
        if isinstance(v, (bool, SymBool)):
            v = int(v) if isinstance(v, bool) else v._int()
        tot = tot + v
    return _wrap_scalar(tot)


def mean(a, axis=None):
    vals = _reduce_vals(a, axis)
    if len(vals) == 0:
        return f64('nan')
    tot = sum(a)
    return _div(tot, len(vals))


def _minmax(vals, want_max, skipnan=False):
    best = None
    for v in vals:
        if isinstance(v, float) and v != v:
            if skipnan:
                continue
            return f64('nan')
        if isinstance(v, SymFloat) and v.nan is not None:
            if symx.truth(symx.mk_bool(v.nan)):
                if skipnan:
                    continue
                return f64('nan')
        if best is None:
            best = v
            continue
        c = (v > best) if want_max else (v < best)
        best = ite(c, v, best)
    return best


def min(a, axis=None):  # noqa
    vals = _reduce_vals(a, axis)
    if not vals:
        raise ValueError("zero-size array to reduction operation minimum which has no identity")
    return _wrap_scalar(_minmax(vals, False))


def max(a, axis=None):  # noqa
    vals = _reduce_vals(a, axis)
    if not vals:
        raise ValueError("zero-size array to reduction operation maximum which has no identity")
    return _wrap_scalar(_minmax(vals, True))


amin = min
amax = max


def nanmin(a, axis=None):
    vals = _reduce_vals(a, axis)
    if not vals:
        raise ValueError("zero-size array to reduction operation fmin which has no identity")
    r = _minmax(vals, False, skipnan=True)
    return f64('nan') if r is None else _wrap_scalar(r)


def nanmax(a, axis=None):
    vals = _reduce_vals(a, axis)
    if not vals:
        raise ValueError("zero-size array to reduction operation fmax which has no identity")
    r = _minmax(vals, True, skipnan=True)
    return f64('nan') if r is None else _wrap_scalar(r)


def minimum(a, b):
    a = asarray(a)
    return a._binary(b, lambda x, y: ite(y < x, y, x), _k_arith)


def maximum(a, b):
    a = asarray(a)
    return a._binary(b, lambda x, y: ite(y > x, y, x), _k_arith)


def _arg_extreme(a, want_max):
    vals = _reduce_vals(a, None)
    if not vals:
        raise ValueError("attempt to get %s of an empty sequence" % ('argmax' if want_max else 'argmin'))
    # first occurrence of the extreme value; NaN wins (numpy)
    best = 0
    for i, v in enumerate(vals):
        if isinstance(v, float) and v != v:
            return i64(i)
    for i in range(1, len(vals)):
        c = (vals[i] > vals[best]) if want_max else (vals[i] < vals[best])
        if symx.truth(c):
            best = i
    return i64(best)


def argmax(a, axis=None):
    return _arg_extreme(a, True)


def argmin(a, axis=None):
    return _arg_extreme(a, False)


def median(a, axis=None):
    vals = _reduce_vals(a, axis)
    if not vals:
        return f64('nan')
    if builtins.any(symx._is_sym(v) for v in vals):
        vals = _sym_sort(vals)
    else:
        if builtins.any(isinstance(v, float) and v != v for v in vals):
            return f64('nan')
        vals = sorted(vals)
    n = len(vals)
    if n % 2:
        return _wrap_scalar(_coerce(vals[n // 2], 'f'))
    return _div(vals[n // 2 - 1] + vals[n // 2], 2)


def _sym_sort(vals):
    out = []
    for v in vals:
        pos = len(out)
        for i, w in enumerate(out):
            if symx.truth(v < w):
                pos = i
                break
        out.insert(pos, v)
    return out


def sort(a):
    a = asarray(a)
    if a.ndim != 1:
        raise ModelGap("sort ndim != 1")
    return ndarray._from_flat(_sym_sort(a._flat_values()), a.shape, a.kind)


def unique(a):
    a = asarray(a)
    vals = _sym_sort(a._flat_values())
    out = []
    for v in vals:
        if not out or symx.truth(v != out[-1]):
            out.append(v)
    return ndarray._from_flat(out, (len(out),), a.kind)


def _contains(vals, v):
    for w in vals:
        if symx.truth(v == w):
            return True
    return False


def setdiff1d(ar1, ar2, assume_unique=False):
    a = unique(asarray(ar1).flatten())
    b = asarray(ar2).flatten()._flat_values()
    out = [v for v in a._flat_values() if not _contains(b, v)]
    return ndarray._from_flat(out, (len(out),), a.kind)


def intersect1d(ar1, ar2, assume_unique=False):
    a = unique(asarray(ar1).flatten())
    b = asarray(ar2).flatten()
    out = [v for v in a._flat_values() if _contains(b._flat_values(), v)]
    return ndarray._from_flat(out, (len(out),), _kmax(a.kind, b.kind))


def union1d(ar1, ar2):
    return unique(concatenate([asarray(ar1).flatten(), asarray(ar2).flatten()]))


def bincount(x, weights=None, minlength=0):
    x = asarray(x)
    if weights is not None or x.ndim != 1:
        raise ModelGap("bincount with weights / of a multi-dimensional array")
    if x.size and x.kind not in ('i', 'b'):
        raise TypeError("Cannot cast array data from dtype('float64') to dtype('int64') according to the rule 'safe'")
    vals = [int(v) for v in x._flat_values()]
    if builtins.any(v < 0 for v in vals):
        raise ValueError("'list' argument must have no negative elements")
    n = builtins.max([v + 1 for v in vals] + [int(minlength)])
    out = [0] * n
    for v in vals:
        out[v] += 1
    return _int_array(out)


def diff(a, n=1, axis=-1, prepend=None, append=None):
    a = asarray(a)
    if n != 1:
        raise ModelGap("diff n != 1")
    if a.ndim == 2 and prepend is None and append is None:
        ax = axis % 2
        hi, lo = (a[1:], a[:-1]) if ax == 0 else (a[:, 1:], a[:, :-1])
        return (hi != lo) if a.kind == 'b' else (hi - lo)
    if a.ndim != 1:
        raise ModelGap("diff ndim != 1")
    parts = []
    if prepend is not None:
        parts.append(asarray(prepend if isinstance(prepend, (list, ndarray)) else [prepend]))
    parts.append(a)
    if append is not None:
        parts.append(asarray(append if isinstance(append, (list, ndarray)) else [append]))
    if len(parts) > 1:
        a = concatenate(parts)
    if a.kind == 'b':
        return a[1:] != a[:-1]
    return a[1:] - a[:-1]


def cumsum(a):
    a = asarray(a)
    out = []
    tot = 0
    for v in a._flat_values():
        if isinstance(v, bool):
            v = int(v)
        elif isinstance(v, SymBool):
            v = v._int()
        tot = tot + v
        out.append(tot)
    k = 'i' if a.kind in ('b', 'i') else a.kind          # narrow integers accumulate in the platform int
    return ndarray._from_flat(out, (len(out),), k)


def concatenate(arrs, axis=0):
    arrs = [asarray(x) for x in arrs]
    if axis != 0:
        raise ModelGap("concatenate axis != 0")
    if builtins.any(x.ndim == 0 for x in arrs):
        raise ValueError("zero-dimensional arrays cannot be concatenated")
    tail = arrs[0].shape[1:]
    for x in arrs:
        if x.shape[1:] != tail:
            raise ValueError("all the input array dimensions except for the concatenation axis must match exactly")
    k = _kmax(*[x.kind for x in arrs])
    vals = []
    for x in arrs:
        vals.extend(x._flat_values())
    n = builtins.sum(x.shape[0] for x in arrs)
    return ndarray._from_flat(vals, (n,) + tail, k)


def hstack(arrs):
    return concatenate([atleast_1d(x) for x in arrs])


def atleast_1d(a):
    a = asarray(a)
    return a.reshape(1) if a.ndim == 0 else a


def append(arr, values, axis=None):
    if axis is not None:
        raise ModelGap("append axis")
    a = asarray(arr).flatten()
    v = asarray(values)
    v = v.reshape(1) if v.ndim == 0 else v.flatten()
    if a.size == 0 and a.kind == 'f' and isinstance(arr, ndarray) is False:
        pass
    return concatenate([a, v])


def insert(*a, **k):
    raise ModelGap("insert")


def pad(a, pad_width, mode='constant', constant_values=0):
    a = asarray(a)
    if a.ndim != 1 or mode != 'constant':
        raise ModelGap("pad")
    if isinstance(pad_width, (tuple, list)):
        lo, hi = (int(pad_width[0]), int(pad_width[1])) if len(pad_width) == 2 else (int(pad_width[0]),) * 2
    else:
        if isinstance(pad_width, float):
            raise TypeError("`pad_width` must be of integral type.")
        lo = hi = int(pad_width)
    if lo < 0 or hi < 0:
        raise ValueError("index can't contain negative values")
    z = _coerce(constant_values, a.kind)
    vals = [z] * lo + a._flat_values() + [z] * hi
    return ndarray._from_flat(vals, (len(vals),), a.kind)


def flatnonzero(a):
    return asarray(a).ravel().nonzero()[0]


def nonzero(a):
    return asarray(a).nonzero()


def where(cond, x=None, y=None):
    cond = asarray(cond)
    if x is None and y is None:
        return cond.nonzero()
    xa, ya = asarray(x), asarray(y)
    shape = _bshape(_bshape(cond.shape, xa.shape), ya.shape)
    cv, xv, yv = _bvals(cond, shape), _bvals(xa, shape), _bvals(ya, shape)
    vals = [ite(_as_boolval(c), a, b) for c, a, b in zip(cv, xv, yv)]
    return ndarray._from_flat(vals, shape, _kmax(xa.kind, ya.kind))


def isnan(a):
    if isinstance(a, (list, tuple)):
        a = asarray(a)
    if isinstance(a, ndarray):
        if a.kind == 'O':
            raise TypeError("ufunc 'isnan' not supported for the input types")
        return a._unary(symx.is_nan, 'b')
    if _is_series(a):
        return isnan(a._to_array())
    return symx.is_nan(a)


def isfinite(a):
    def fin(v):
        if isinstance(v, float):
            return not (v != v or v in (float('inf'), float('-inf')))
        if isinstance(v, SymFloat):
            return _not(symx.is_nan(v))
        return True
    if isinstance(a, (list, tuple, ndarray)):
        return asarray(a)._unary(fin, 'b')
    return fin(a)


def isinf(a):
    def isi(v):
        return isinstance(v, float) and v in (float('inf'), float('-inf'))
    if isinstance(a, (list, tuple, ndarray)):
        return asarray(a)._unary(isi, 'b')
    return isi(a)


def any(a, axis=None):  # noqa
    return asarray(a).any(axis)


def all(a, axis=None):  # noqa
    return asarray(a).all(axis)


def ceil(x):
    if isinstance(x, ndarray):
        return x._unary(ceil, 'f')
    if symx._is_sym(x):
        if isinstance(x, SymInt):
            return SymFloat(symx._zr(x))
        raise ModelGap("ceil of symbolic real")
    if isinstance(x, float) and (x != x or x in (float('inf'), float('-inf'))):
        return f64(x)
    return f64(math.ceil(x))


def floor(x):
    if isinstance(x, ndarray):
        return x._unary(floor, 'f')
    if symx._is_sym(x):
        if isinstance(x, SymInt):
            return SymFloat(symx._zr(x))
        raise ModelGap("floor of symbolic real")
    if isinstance(x, float) and (x != x or x in (float('inf'), float('-inf'))):
        return f64(x)
    return f64(math.floor(x))


def round(x, decimals=0):  # noqa
    if isinstance(x, ndarray):
        return x._unary(lambda v: round(v, decimals), x.kind)
    if symx._is_sym(x):
        if isinstance(x, SymInt):
            return x
        return symx.sym_round(x, decimals)
    if isinstance(x, int):
        return x
    return f64(builtins.round(float(x), decimals))


around = round
rint = round


def sign(x):
    if isinstance(x, ndarray):
        return x._unary(sign)
    return ite(x > 0, 1, ite(x < 0, -1, 0))


def sqrt(x):
    raise ModelGap("sqrt")


def swapaxes(a, ax1, ax2):
    a = asarray(a)
    nd = a.ndim
    ax1 %= nd
    ax2 %= nd
    perm = list(range(nd))
    perm[ax1], perm[ax2] = perm[ax2], perm[ax1]
    return _transpose(a, perm)


def transpose(a, axes=None):
    a = asarray(a)
    if axes is None:
        axes = list(reversed(range(a.ndim)))
    return _transpose(a, list(axes))


def moveaxis(a, src, dst):
    a = asarray(a)
    perm = [i for i in range(a.ndim) if i != src % a.ndim]
    perm.insert(dst % a.ndim, src % a.ndim)
    return _transpose(a, perm)


def _transpose(a, perm):
    new_shape = tuple(a.shape[p] for p in perm)
    st = _strides(a.shape)
    offs = []
    for combo in itertools.product(*[range(s) for s in new_shape]):
        flat = 0
        for c, p in zip(combo, perm):
            flat += c * st[p]
        offs.append(a._idx[flat])
    return ndarray(a._store, offs, new_shape, a.kind, a._writeable, a)


def reshape(a, shape=None, order='C', newshape=None):
    return asarray(a).reshape(shape if shape is not None else newshape, order=order)


def ravel(a, order='C'):
    return asarray(a).ravel(order=order)


def asfortranarray(a, dtype=None):
    """same values, column-major memory layout."""
    a = asarray(a, dtype=dtype) if dtype is not None else asarray(a)
    if a.ndim < 2 or a._f_contiguous():
        return a
    src = a._f_order_idx()
    store = [a._store[i] for i in src]             # memory image in Fortran order
    pos = {}
    k = 0
    for combo in itertools.product(*[range(m) for m in reversed(a.shape)]):
        pos[tuple(reversed(combo))] = k
        k += 1
    idx = [pos[c] for c in itertools.product(*[range(m) for m in a.shape])]
    return ndarray(store, idx, a.shape, a.kind)


def ascontiguousarray(a, dtype=None):
    a = asarray(a, dtype=dtype) if dtype is not None else asarray(a)
    return a if a._c_contiguous() else a.copy()


def isin(element, test_elements, invert=False):
    e = asarray(element)
    t = asarray(test_elements)._flat_values()
    out = []
    for v in e._flat_values():
        r = False
        for w in t:
            r = _or(r, _as_boolval(v == w))
        out.append(_not(r) if invert else r)
    return ndarray._from_flat(out, e.shape, 'b')


def take(a, indices, axis=None):
    a = asarray(a)
    if axis is not None and a.ndim != 1:
        raise ModelGap("take along an axis")
    return a.flatten()[asarray(indices)] if not isinstance(indices, (int, SymInt)) else a.flatten()[indices]


def repeat(a, repeats, axis=None):
    a = asarray(a)
    if axis is not None or not isinstance(repeats, int):
        raise ModelGap("repeat with an axis / per-element counts")
    vals = [v for v in a._flat_values() for _ in range(repeats)]
    return ndarray(vals, list(range(len(vals))), (len(vals),), a.kind)


def ediff1d(a):
    return diff(asarray(a).flatten())


def argsort(a, axis=-1, kind=None):
    a = asarray(a)
    if a.ndim != 1 or a.size > 16:
        raise ModelGap("argsort of a multi-dimensional / long array")
    vals = a._flat_values()
    if builtins.any(isinstance(v, (float, SymFloat)) and symx.truth(_as_boolval(isnan(v))) for v in vals):
        raise ModelGap("argsort with NaN")
    order = []
    for i in range(len(vals)):          # insertion sort = what numpy does for short arrays (stable)
        j = len(order)
        while j > 0 and symx.truth(_as_boolval(vals[order[j - 1]] > vals[i])):
            j -= 1
        order.insert(j, i)
    return _int_array(order)


def negative(a):
    a = asarray(a)
    return -a


def roll(a, shift, axis=None):
    a = asarray(a)
    if axis is not None or a.ndim != 1:
        raise ModelGap("roll of a multi-dimensional array / along an axis")
    vals = a._flat_values()
    n = len(vals)
    if n == 0:
        return a.copy()
    k = int(shift) % n
    vals = vals[n - k:] + vals[:n - k]
    return ndarray(vals, list(range(n)), (n,), a.kind)


def flip(a, axis=None):
    a = asarray(a)
    if a.ndim != 1:
        raise ModelGap("flip ndim != 1")
    return a[::-1]


def squeeze(a):
    return asarray(a).squeeze()


def stack(arrs, axis=0):
    arrs = [asarray(x) for x in arrs]
    if axis != 0:
        raise ModelGap("stack axis != 0")
    return array([x.tolist() for x in arrs])


vstack = stack


def interp(x, xp, fp):
    """1-D linear interpolation, numpy semantics (xp increasing, clamped at the ends)."""
    x = asarray(x)
    xp = asarray(xp)
    fp = asarray(fp)
    if xp.size == 0:
        raise ValueError("array of sample points is empty")
    if xp.size != fp.size:
        raise ValueError("fp and xp are not of the same length.")
    xs = xp._flat_values()
    fs = fp._flat_values()
    out = []
    for xv in x._flat_values():
        out.append(_interp1(xv, xs, fs))
    return ndarray._from_flat(out, x.shape, 'f')


def _interp1(xv, xs, fs):
    n = len(xs)
    if symx.truth(xv <= xs[0]):
        # numpy returns fp[0] for x < xp[0] and the exact point value at xp[0]
        return fs[0]
    if symx.truth(xv >= xs[n - 1]):
        return fs[n - 1]
    j = 0
    while j < n - 2 and symx.truth(xs[j + 1] <= xv):
        j += 1
    if symx.truth(xv == xs[j]):
        return fs[j]
    slope = _div(fs[j + 1] - fs[j], xs[j + 1] - xs[j])
    return slope * (xv - xs[j]) + fs[j]


class _AddUfunc:
    """np.add as far as bycycle-style code uses it: call, reduce, reduceat (1-D)."""

    def __call__(self, a, b):
        return asarray(a) + b

    def reduce(self, a, axis=0):
        return sum(a)

    def reduceat(self, a, indices):
        a = asarray(a)
        idx = [int(v) for v in asarray(indices)._flat_values()]
        if a.ndim != 1:
            raise ModelGap("add.reduceat ndim != 1")
        vals = a._flat_values()
        n = len(vals)
        out = []
        for k, i in enumerate(idx):
            if i < 0 or i >= n:
                raise IndexError("index %d out-of-bounds in add.reduceat [0, %d)" % (i, n))
            j = idx[k + 1] if k + 1 < len(idx) else n
            seg = vals[i:j] if i < j else [vals[i]]
            tot = seg[0]
            for v in seg[1:]:
                tot = tot + v
            out.append(tot)
        return ndarray._from_flat(out, (len(out),), a.kind if a.kind != 'b' else 'i')


add = _AddUfunc()


def searchsorted(a, v, side='left'):
    """insertion indices into the sorted 1-D array ``a`` (comparisons stay symbolic: decisions)."""
    a = asarray(a)
    if a.ndim != 1:
        raise ModelGap("searchsorted ndim != 1")
    if side not in ('left', 'right'):
        raise ValueError("side must be 'left' or 'right'")
    av = a._flat_values()

    def one(x):
        k = 0
        for y in av:
            c = (y < x) if side == 'left' else (y <= x)
            if symx.truth(c):
                k += 1
            else:
                break
        return i64(k)
    if isinstance(v, (list, tuple, ndarray)) or _is_series(v):
        vv = asarray(v)
        return ndarray._from_flat([one(x) for x in vv._flat_values()], vv.shape, 'i')
    return one(v)


def array_equal(a, b):
    a, b = asarray(a), asarray(b)
    if a.shape != b.shape:
        return False
    return (a == b).all()


def isclose(a, b, rtol=1e-05, atol=1e-08, equal_nan=False):
    a = asarray(a)

    def close1(x, y):
        nx, ny = symx.is_nan(x), symx.is_nan(y)
        if nx is True or ny is True:
            return bool(equal_nan) and nx is True and ny is True
        if isinstance(x, float) and x in (float('inf'), float('-inf')) or isinstance(y, float) and y in (float('inf'), float('-inf')):
            return x == y
        return _abs(x - y) <= atol + rtol * _abs(y)
    return a._binary(b, close1, _k_bool)


def allclose(a, b, rtol=1e-05, atol=1e-08, equal_nan=False):
    return isclose(a, b, rtol, atol, equal_nan).all()


def isscalar(x):
    return not isinstance(x, (ndarray, list, tuple, dict)) and not _is_series(x)


def count_nonzero(a):
    return sum(asarray(a)._unary(_as_boolval, 'b'))


def clip(a, lo, hi):
    return minimum(maximum(a, lo), hi)


def in1d(ar1, ar2, invert=False):
    return isin(asarray(ar1).flatten(), ar2, invert=invert)


def __getattr__(name):
    if name.startswith('__'):
        raise AttributeError(name)
    if name == 'pi':
        return PI_PROVIDER() if PI_PROVIDER is not None else f64(math.pi)
    raise ModelGap("numpy.%s is not modelled" % name)
