"""CrossHair cross-check of C08 (second, independent symbolic engine; DESIGN.md 2.1).

The same real bycycle function runs over the same numpy model, but the symbolic booleans / integer
and the path exploration are CrossHair's.  Run by `vcheck crosscheck`:
    crosshair check --report_all --per_condition_timeout <s> crosscheck/ch_c08.py
Its verdict never decides the property: "Confirmed over all paths" must simply not contradict symx."""
import sys
import os
from typing import List

ROOT = os.path.dirname(os.path.dirname(os.path.abspath(__file__)))
if ROOT not in sys.path:
    sys.path.insert(0, ROOT)
from models import env          # noqa: E402

env.install_symbolic()
import bycycle.burst.utils as bu     # noqa: E402  (the real source from /repo, bound to the models)
import numpy as np                   # noqa: E402  (the model)


def _runlen_ok(bits: List[bool], m: int, out: List[bool]) -> bool:
    n = len(bits)
    if len(out) != n:
        return False
    for i in range(n):
        lo = i
        while lo > 0 and bits[lo - 1]:
            lo -= 1
        hi = i
        while hi < n - 1 and bits[hi + 1]:
            hi += 1
        want = bits[i] and (hi - lo + 1) >= m
        if bool(out[i]) != bool(want):
            return False
    return True


def check_min_burst_cycles_rule(bits: List[bool], m: int) -> bool:
    """
    pre: len(bits) <= 5
    pre: m >= 0
    post: _
    """
    arr = np.array(list(bits), dtype=bool)
    out = bu.check_min_burst_cycles(arr, min_n_cycles=m)
    return _runlen_ok(list(bits), m, [bool(v) for v in out.tolist()])
